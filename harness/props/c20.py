"""C20 — each run gets a fresh temp directory, even under races and faults.

Correspondence: real `create_temp_dir` vs the model (sequential: every subset of tmp1..tmp6 as
directories or plain files; faults; concurrent: every interleaving of k logical runs at
file-system-call granularity).  Monitor: the property's words."""
from __future__ import annotations

import errno
import itertools
import os
import shutil
import signal
import subprocess
import sys
import threading

from .. import common, loaders

RULE = ("sequential: every subset of {tmp1..tmp6} pre-existing as directories / plain files / mixed; faults: removed cwd, os.mkdir raising "
        "EACCES/EROFS/ENOSPC/ENOTDIR/ENAMETOOLONG (time-boxed); concurrent: k in {2,3} logical runs as threads whose every mkdir/stat/listdir "
        "call is a scheduling point, all interleavings enumerated, pre-existing sets {}, {1}, {1,2}, {2}; thorough: 16 real processes released "
        "together; non-trivial = a schedule in which two runs contended for the same name, or a pre-existing set with a gap")


class Spin(BaseException):
    pass


def _alarm(_s, _f):
    raise Spin()


def fresh_dir(name):
    d = loaders.scratch() / name
    if d.exists():
        shutil.rmtree(d)
    d.mkdir()
    return d


def call_create(timebox=5.0):
    """Lithium().create_temp_dir() under a watchdog; returns ('ok', name) | ('raise', exc) | ('spin',)"""
    from lithium.reducer import Lithium

    old = signal.signal(signal.SIGALRM, _alarm)
    signal.setitimer(signal.ITIMER_REAL, timebox)
    try:
        lith = Lithium()
        lith.create_temp_dir()
        return ("ok", str(lith.temp_dir))
    except Spin:
        return ("spin",)
    except BaseException as exc:  # pylint: disable=broad-except
        return ("raise", exc)
    finally:
        signal.setitimer(signal.ITIMER_REAL, 0)
        signal.signal(signal.SIGALRM, old)


LOOKALIKES = ("tmp01", "tmp002", "tmp 3", "tmp+4", "Tmp1", "tmp1.bak", "tmp\uff11", "tmp\u00b2", "tmp-1", "tmp0", "xtmp1", "tmp1_")


def sequential(ctx):
    cwd = os.getcwd()
    try:
        for kindset in ("dir", "file", "mixed"):
            for subset in itertools.chain.from_iterable(itertools.combinations(range(1, 7), r) for r in range(0, 7)):
                d = fresh_dir("c20-seq")
                for j, n in enumerate(subset):
                    p = d / f"tmp{n}"
                    if kindset == "dir" or (kindset == "mixed" and j % 2 == 0):
                        p.mkdir()
                        (p / "keep.txt").write_text("precious")
                    else:
                        p.write_text("precious")
                (d / "tmp").write_text("not a candidate")
                # names that only look like numbered directories take no number away
                for j, look in enumerate(LOOKALIKES):
                    if (len(subset) + j) % 3 == 0:
                        (d / look).mkdir() if j % 2 else (d / look).write_text("not a candidate either")
                before = sorted((str(p.relative_to(d)), p.read_bytes() if p.is_file() else None) for p in d.rglob("*"))
                os.chdir(d)
                res = call_create()
                os.chdir(cwd)
                case = dict(existing=list(subset), kind=kindset)
                want = next(i for i in itertools.count(1) if i not in subset)
                real = f"ok {res[1][3:]}" if res[0] == "ok" and res[1].startswith("tmp") else f"{res[0]}"
                ctx.expect("tempdir", f"tempdir {','.join(map(str, subset)) or '.'} N", real, case)
                # and one level down: the whole listing as names (look-alikes included) through the name-level model
                listing = sorted(n for n in os.listdir(d) if n != res[1]) if res[0] == "ok" else sorted(os.listdir(d))
                ctx.expect("tempdir-names", "tempdir-names " + common.enc_list([n.encode() for n in listing]) + " N", real, dict(case, listing=listing))
                if res[0] != "ok":
                    ctx.fail("sequential", f"existing {subset} ({kindset}): {res}", case)
                    continue
                if res[1] != f"tmp{want}":
                    ctx.fail("wrong-name", f"existing {subset} ({kindset}): got {res[1]}, expected tmp{want}", case)
                after = sorted((str(p.relative_to(d)), p.read_bytes() if p.is_file() else None) for p in d.rglob("*"))
                if [x for x in after if x[0] != res[1]] != before or not (d / res[1]).is_dir() or any((d / res[1]).iterdir()):
                    ctx.fail("existing-touched", f"existing {subset} ({kindset}): entries changed or the new directory is not a fresh empty one", case)
                if subset and want < max(subset):
                    ctx.nontriv("seq", kindset, subset)
                ctx.bump("sequential")
        ctx.exhaustive.append("every subset of {tmp1..tmp6} x {directories, plain files, mixed}")
    finally:
        os.chdir(cwd)


def faults(ctx):
    cwd = os.getcwd()
    real_mkdir = os.mkdir
    try:
        # cwd removed
        d = fresh_dir("c20-gone")
        sub = d / "sub"
        sub.mkdir()
        os.chdir(sub)
        os.rmdir(sub)
        res = call_create(3.0)
        os.chdir(cwd)
        case = dict(fault="cwd removed")
        ctx.evaluations += 1
        ctx.expect("tempdir", f"tempdir . {errno.ENOENT}", f"err {errno.ENOENT}" if res[0] == "raise" and isinstance(res[1], OSError)
                   and res[1].errno == errno.ENOENT else str(res[0]), case)
        if res[0] != "raise" or not isinstance(res[1], OSError):
            ctx.fail("fault-retry", f"cwd removed: create_temp_dir {'retried until the watchdog fired' if res[0] == 'spin' else res}", case)
        for code in (errno.EACCES, errno.EROFS, errno.ENOSPC, errno.ENOTDIR, errno.ENAMETOOLONG, errno.EIO):
            d = fresh_dir("c20-fault")
            os.chdir(d)
            calls = []

            def bad(path, mode=0o777, *a, code=code, **k):
                calls.append(str(path))
                raise OSError(code, os.strerror(code), str(path))

            os.mkdir = bad
            try:
                res = call_create(3.0)
            finally:
                os.mkdir = real_mkdir
                os.chdir(cwd)
            case = dict(fault=errno.errorcode[code])
            ctx.evaluations += 1
            ctx.expect("tempdir", f"tempdir . {code}", f"err {res[1].errno}" if res[0] == "raise" and isinstance(res[1], OSError) else str(res[0]), case)
            if res[0] != "raise" or not isinstance(res[1], OSError) or res[1].errno != code:
                ctx.fail("fault-retry", f"mkdir failing with {errno.errorcode[code]}: "
                         + ("retried until the watchdog fired" if res[0] == "spin" else repr(res)) + f" after {len(calls)} attempts", case)
            elif len(calls) != 1:
                ctx.fail("fault-retry", f"mkdir failing with {errno.errorcode[code]}: {len(calls)} attempts before giving up", case)
            ctx.bump("fault")
            ctx.nontriv("fault", code)
    finally:
        os.mkdir = real_mkdir
        os.chdir(cwd)


# ------------------------------------------------------------------------------------------
# all interleavings of k logical runs at file-system-call granularity


class Scheduler:
    PATCHED = ("mkdir", "stat", "lstat", "listdir", "scandir", "rmdir", "rename", "replace", "open")

    def __init__(self, k):
        self.k = k
        self.sem = [threading.Semaphore(0) for _ in range(k)]
        self.main = threading.Semaphore(0)
        self.finished = [False] * k
        self.result = [None] * k
        self.ids = {}
        self.real = {n: getattr(os, n) for n in self.PATCHED}
        self.points = [0] * k

    def point(self):
        tid = self.ids.get(threading.get_ident())
        if tid is None:
            return
        self.points[tid] += 1
        self.main.release()
        self.sem[tid].acquire()

    def wrap(self, name):
        real = self.real[name]

        def f(*a, **k):
            self.point()
            return real(*a, **k)

        return f

    def body(self, tid):
        from lithium.reducer import Lithium

        self.ids[threading.get_ident()] = tid
        # runs up to its first file-system call, where it parks; from then on every release by the
        # scheduler executes exactly one file-system call
        try:
            lith = Lithium()
            lith.create_temp_dir()
            self.result[tid] = ("ok", str(lith.temp_dir))
        except BaseException as exc:  # pylint: disable=broad-except
            self.result[tid] = ("raise", f"{type(exc).__name__}: {exc}")
        self.finished[tid] = True
        self.main.release()

    def run(self, prefix, max_steps=60):
        """returns (trace of (choice, runnable), results, contention)"""
        for n in self.PATCHED:
            setattr(os, n, self.wrap(n))
        threads = [threading.Thread(target=self.body, args=(i,), daemon=True) for i in range(self.k)]
        try:
            for t in threads:
                t.start()
            for _ in range(self.k):
                self.main.acquire()
            trace = []
            while not all(self.finished) and len(trace) < max_steps:
                runnable = [i for i in range(self.k) if not self.finished[i]]
                choice = prefix[len(trace)] if len(trace) < len(prefix) and prefix[len(trace)] in runnable else runnable[0]
                trace.append((choice, runnable))
                self.sem[choice].release()
                self.main.acquire()
            stuck = not all(self.finished)
        finally:
            for n in self.PATCHED:
                setattr(os, n, self.real[n])
        if stuck:
            # let the parked threads run to completion unscheduled (functions are restored)
            for i in range(self.k):
                if not self.finished[i]:
                    self.sem[i].release()
        for t in threads:
            t.join(2.0)
        return trace, self.result, stuck


def interleavings(ctx, k, existing, limit):
    cwd = os.getcwd()
    stack, n, complete = [[]], 0, True
    try:
        while stack:
            if n >= limit:
                complete = False
                break
            prefix = stack.pop()
            d = fresh_dir("c20-conc")
            for e in existing:
                (d / f"tmp{e}").mkdir()
            os.chdir(d)
            sch = Scheduler(k)
            trace, results, stuck = sch.run(prefix)
            os.chdir(cwd)
            n += 1
            for i in range(len(prefix), len(trace)):
                choice, runnable = trace[i]
                for alt in runnable:
                    if alt != choice:
                        stack.append([c for c, _ in trace[:i]] + [alt])
            sched = [c for c, _ in trace]
            case = dict(k=k, existing=list(existing), schedule=sched)
            names = [r[1] for r in results if r and r[0] == "ok"]
            real = ",".join((r[1][3:] if r and r[0] == "ok" and r[1].startswith("tmp") else "-") for r in results)
            # each scheduling point of the unmodified code is one mkdir attempt = one model step
            ctx.expect("tempdir-conc", f"tempdir-conc {','.join(map(str, existing)) or '.'} {k} {','.join(map(str, sched)) or '.'}", real, case)
            if stuck:
                ctx.fail("concurrent-stuck", f"k={k} existing={existing}: runs did not finish within the step budget", case)
            if any(r and r[0] == "raise" for r in results):
                ctx.fail("concurrent-crash", f"k={k} existing={existing} schedule {sched}: a run failed: {[r for r in results if r and r[0] == 'raise']}", case)
            if len(set(names)) != len(names):
                ctx.fail("concurrent-shared", f"k={k} existing={existing} schedule {sched}: two runs got the same directory {names}", case)
            if any(nm in [f"tmp{e}" for e in existing] for nm in names):
                ctx.fail("concurrent-reuse", f"k={k} existing={existing} schedule {sched}: a pre-existing directory was handed out {names}", case)
            if len(set(sched[:2 * k])) > 1:
                ctx.nontriv("conc", k, tuple(existing), tuple(sched))
            ctx.bump(f"interleavings:k={k}")
    finally:
        os.chdir(cwd)
    return complete


PROC = ("import os,sys,time\nsys.path.insert(0, sys.argv[1])\nfrom lithium.reducer import Lithium\n"
        "while not os.path.exists('GO'): pass\nl=Lithium(); l.create_temp_dir(); print(l.temp_dir)\n")


def processes(ctx, rounds, nproc):
    for r in range(rounds):
        d = fresh_dir("c20-proc")
        ps = [subprocess.Popen([sys.executable, "-c", PROC, str(common.REPO / "src")], cwd=d, stdout=subprocess.PIPE, stderr=subprocess.PIPE)
              for _ in range(nproc)]
        import time
        time.sleep(0.4)
        (d / "GO").write_text("")
        outs = []
        for p in ps:
            o, e = p.communicate(timeout=60)
            outs.append((p.returncode, o.decode().strip(), e.decode()[-200:]))
        ctx.evaluations += 1
        names = [o for rc, o, e in outs if rc == 0]
        case = dict(processes=nproc, round=r)
        if len(names) != nproc:
            ctx.fail("concurrent-crash", f"{nproc - len(names)} of {nproc} processes failed: {[e for rc, o, e in outs if rc != 0][:2]}", case)
        if len(set(names)) != len(names):
            ctx.fail("concurrent-shared", f"real processes shared a directory: {sorted(names)}", case)
        ctx.bump("process-rounds")


def whole_runs(ctx):
    """the same clauses through a whole `Lithium.run()`: a failing mkdir stops the run with that error before any test,
    and a successful run writes its intermediate files only into the tmpN it created (nothing else appears in the
    working directory or in the system temp directory)"""
    import tempfile

    from lithium.reducer import Lithium
    from lithium.strategies import Minimize
    from lithium.testcases import TestcaseLine

    cwd = os.getcwd()
    real_mkdir = os.mkdir

    def make(d):
        path = d / "tc.txt"
        path.write_bytes(b"a\nb\nc\n")
        tc = TestcaseLine()
        tc.load(path)
        calls = []

        class Test:
            @staticmethod
            def interesting(args, prefix):
                calls.append(prefix)
                return b"b" in path.read_bytes()

        lith = Lithium()
        lith.testcase, lith.condition_script, lith.condition_args, lith.strategy = tc, Test, [], Minimize()
        return lith, calls, path

    try:
        for code in (None, errno.EACCES, errno.ENOSPC):
            d = fresh_dir("c20-run")
            (d / "tmp1").mkdir()
            (d / "tmp1" / "keep.txt").write_bytes(b"old run")
            (d / "tmp2").write_bytes(b"a file")
            # files that look like somebody's staging / backup copies of the testcase: not this run's, not to be used or replaced
            decoys = ["tc.txt.tmp", "tc.txt.part", "tc.txt~", ".tc.txt.swp", "tc.txt.bak", "tc.txt.new"]
            for n in decoys:
                (d / n).write_bytes(b"decoy " + n.encode())
            os.chdir(d)
            sys_tmp = set(os.listdir(tempfile.gettempdir()))
            lith, calls, path = make(d)
            if code is not None:
                def bad(p, mode=0o777, *a, code=code, d=d, **k):
                    # only the working directory refuses new entries (read-only checkout, quota): other places still work
                    if os.path.dirname(os.path.abspath(str(p))) == str(d):
                        raise OSError(code, os.strerror(code), str(p))
                    return real_mkdir(p, mode, *a, **k)
                os.mkdir = bad
            old_handler = signal.signal(signal.SIGALRM, _alarm)
            signal.setitimer(signal.ITIMER_REAL, 10.0)   # a run on three lines takes milliseconds
            try:
                try:
                    res = ("ok", lith.run())
                except Spin:
                    res = ("spin",)
                except BaseException as exc:  # pylint: disable=broad-except
                    res = ("raise", exc)
            finally:
                signal.setitimer(signal.ITIMER_REAL, 0)
                signal.signal(signal.SIGALRM, old_handler)
                os.mkdir = real_mkdir
                os.chdir(cwd)
            case = dict(fault=None if code is None else errno.errorcode[code], via="Lithium.run")
            ctx.evaluations += 1
            ctx.bump("whole-run")
            new_sys = set(os.listdir(tempfile.gettempdir())) - sys_tmp
            new_sys = {n for n in new_sys if not n.startswith("lithium-verif-")}
            for n in new_sys:
                shutil.rmtree(os.path.join(tempfile.gettempdir(), n), ignore_errors=True)
            names = sorted(os.listdir(d))
            untouched = (d / "tmp1" / "keep.txt").read_bytes() == b"old run" and os.listdir(d / "tmp1") == ["keep.txt"] and \
                (d / "tmp2").read_bytes() == b"a file" and all((d / n).is_file() and (d / n).read_bytes() == b"decoy " + n.encode() for n in decoys)
            if res[0] == "spin":
                ctx.fail("fault-retry" if code is not None else "sequential",
                         "run() did not return within 10 s: create_temp_dir keeps retrying (working directory holds a directory tmp1 and a FILE tmp2)", case)
            elif code is not None:
                if res[0] != "raise" or not isinstance(res[1], OSError) or res[1].errno != code or calls or new_sys or \
                        names != sorted(["tc.txt", "tmp1", "tmp2"] + decoys) or not untouched or path.read_bytes() != b"a\nb\nc\n":
                    ctx.fail("fault-retry", f"run() with mkdir failing ({errno.errorcode[code]}): {res!r}, {len(calls)} tests ran, "
                             f"working directory {names}, new entries in the system temp directory {sorted(new_sys)}", case)
            else:
                if res != ("ok", 0) or names != sorted(["tc.txt", "tmp1", "tmp2", "tmp3"] + decoys) or not untouched or new_sys or \
                        any(os.path.normpath(os.path.join(str(d), os.path.dirname(str(pfx)))) != str(d / "tmp3") for pfx in calls):
                    ctx.fail("sequential", f"run(): {res!r}, working directory {names}, prefixes {calls[:3]}, new entries in the system temp "
                             f"directory {sorted(new_sys)}", case)
    finally:
        os.mkdir = real_mkdir
        os.chdir(cwd)


def neighbours_empty_directory(ctx):
    """another run has just created its tmpN and stored nothing in it yet: whatever happens to THIS run (a fault in its own
    mkdir on that very name, an interrupt, a normal end), that directory is not this run's and is still there afterwards
    (whole `Lithium.main(argv)` runs)"""
    import contextlib
    import io

    from lithium.reducer import Lithium

    cwd = os.getcwd()
    real_mkdir = os.mkdir
    faults_ = [None, OSError(errno.EIO, os.strerror(errno.EIO)), OSError(errno.ESTALE, os.strerror(errno.ESTALE)), KeyboardInterrupt(), MemoryError()]
    try:
        for fault in faults_:
            for nth in (1, 2):
                d = fresh_dir("c20-neighbour")
                (d / "tmp1").mkdir()                      # the other run's, still empty
                (d / "tmp2").mkdir()
                (d / "tc.txt").write_bytes(b"a\nb\nc\n")
                (d / "c20n_test.py").write_text("def interesting(args, prefix):\n    return b'b' in open(args[-1], 'rb').read()\n")
                os.chdir(d)
                sys.modules.pop("c20n_test", None)
                seen = []

                def bad(p, mode=0o777, *a, fault=fault, nth=nth, seen=seen, **k):
                    seen.append(str(p))
                    if fault is not None and len(seen) == nth:
                        raise fault
                    return real_mkdir(p, mode, *a, **k)

                os.mkdir = bad
                old_handler = signal.signal(signal.SIGALRM, _alarm)
                signal.setitimer(signal.ITIMER_REAL, 10.0)
                try:
                    try:
                        with contextlib.redirect_stdout(io.StringIO()), contextlib.redirect_stderr(io.StringIO()):
                            res = ("ok", Lithium().main(["c20n_test.py", "tc.txt"]))
                    except Spin:
                        res = ("spin",)
                    except BaseException as exc:  # pylint: disable=broad-except
                        res = ("raise", type(exc).__name__)
                finally:
                    signal.setitimer(signal.ITIMER_REAL, 0)
                    signal.signal(signal.SIGALRM, old_handler)
                    os.mkdir = real_mkdir
                    os.chdir(cwd)
                    sys.modules.pop("c20n_test", None)
                ctx.evaluations += 1
                ctx.bump("neighbours-empty-directory")
                case = dict(fault=None if fault is None else type(fault).__name__ + (f":{fault.errno}" if isinstance(fault, OSError) else ""),
                            at_mkdir_call=nth, via="Lithium.main", existing=["tmp1 (empty dir)", "tmp2 (empty dir)"])
                gone = [n for n in ("tmp1", "tmp2") if not (d / n).is_dir()]
                filled = [n for n in ("tmp1", "tmp2") if (d / n).is_dir() and os.listdir(d / n)]
                if gone or filled:
                    ctx.fail("existing-touched", f"main() with {case['fault']} at mkdir call {nth} ({res}): the other runs' directories: removed {gone}, "
                             f"written into {filled}", case)
                elif res[0] == "spin":
                    ctx.fail("fault-retry", f"main() with {case['fault']} at mkdir call {nth} did not return within 10 s", case)
                elif fault is None and (res != ("ok", 0) or not (d / "tmp3").is_dir()):
                    ctx.fail("sequential", f"main() next to two empty directories tmp1, tmp2: {res}, directory holds {sorted(os.listdir(d))}", case)
                elif fault is not None and (res[0] != "raise" or (d / "tmp3").exists()):
                    ctx.fail("fault-retry", f"main() with {case['fault']} at mkdir call {nth}: {res}, directory holds {sorted(os.listdir(d))}", case)
                ctx.nontriv("neighbour", case["fault"], nth)
    finally:
        os.mkdir = real_mkdir
        os.chdir(cwd)


def init_changes_directory(ctx):
    """a condition script whose init() hook changes the working directory (it builds its target in a work directory): the
    run's tmpN is ONE directory — the one that is created is the one the files go to — and an older tmpN of the work directory
    is not written into"""
    from lithium.reducer import Lithium
    from lithium.strategies import Minimize
    from lithium.testcases import TestcaseLine

    cwd = os.getcwd()
    start = fresh_dir("c20-chdir-start")
    work = fresh_dir("c20-chdir-work")
    (work / "tmp1").mkdir()
    (work / "tmp1" / "original.txt").write_bytes(b"older run")
    path = start / "tc.txt"
    path.write_bytes(b"a\nb\nc\n")
    tc = TestcaseLine()
    tc.load(path)

    class Test:
        @staticmethod
        def init(args):
            os.chdir(work)

        @staticmethod
        def interesting(args, prefix):
            return b"b" in path.read_bytes()

    lith = Lithium()
    lith.testcase, lith.condition_script, lith.condition_args, lith.strategy = tc, Test, [], Minimize()
    os.chdir(start)
    try:
        try:
            lith.run()
            err = None
        except BaseException as exc:  # pylint: disable=broad-except
            err = exc
    finally:
        os.chdir(cwd)
    ctx.evaluations += 1
    ctx.bump("init-chdir")
    case = dict(via="Lithium.run", init_hook="os.chdir(work)")
    if err is not None:
        ctx.fail("run-raises", f"run() with an init() hook that changes directory raised {type(err).__name__}: {err}", case)
    if (work / "tmp1" / "original.txt").read_bytes() != b"older run" or sorted(os.listdir(work / "tmp1")) != ["original.txt"]:
        ctx.fail("existing-dir-used", f"the older work/tmp1 was written into: {sorted(os.listdir(work / 'tmp1'))}", case)
    made = [str(p.relative_to(p.parent.parent)) for base in (start, work) for p in base.iterdir() if p.is_dir() and p.name.startswith("tmp")
            and not (base == work and p.name == "tmp1")]
    used = [m for m in made if os.listdir((start.parent / m))]
    empty = [m for m in made if not os.listdir((start.parent / m))]
    if empty or len(used) != 1:
        ctx.fail("tempdir-split", f"directories created: {made}; with files: {used}; left empty: {empty} — the run's temp directory must be one "
                 "directory", case)
    ctx.nontriv("init-chdir")


def constructed_elsewhere(ctx):
    """the Lithium object is built while the process is in one directory and run after it changed to another (a tool that
    prepares jobs up front): the temp directory is created in the CURRENT directory of the run; the directory of construction
    gets nothing"""
    from lithium.reducer import Lithium
    from lithium.strategies import Minimize
    from lithium.testcases import TestcaseLine

    cwd = os.getcwd()
    a = fresh_dir("c20-built-here")
    b = fresh_dir("c20-run-here")
    (a / "tmp1").mkdir()
    os.chdir(a)
    try:
        lith = Lithium()
        path = b / "tc.txt"
        path.write_bytes(b"a\nb\nc\n")
        tc = TestcaseLine()
        tc.load(path)

        class Test:
            @staticmethod
            def interesting(args, prefix):
                return b"b" in path.read_bytes()

        lith.testcase, lith.condition_script, lith.condition_args, lith.strategy = tc, Test, [], Minimize()
        os.chdir(b)
        try:
            lith.run()
            err = None
        except BaseException as exc:  # pylint: disable=broad-except
            err = exc
    finally:
        os.chdir(cwd)
    ctx.evaluations += 1
    ctx.bump("constructed-elsewhere")
    case = dict(via="Lithium.run", built_in="A", run_in="B")
    if err is not None:
        ctx.fail("run-raises", f"run() raised {type(err).__name__}: {err}", case)
    in_a = sorted(os.listdir(a))
    in_b = sorted(n for n in os.listdir(b) if n.startswith("tmp"))
    if in_a != ["tmp1"] or os.listdir(a / "tmp1") or in_b != ["tmp1"] or not os.listdir(b / "tmp1"):
        ctx.fail("wrong-directory", f"object built in A (which holds an older tmp1), run in B: A now holds {in_a}, B holds {in_b} — the run's "
                 "temp directory belongs into the current directory, lowest free number there", case)
    ctx.nontriv("constructed-elsewhere")


def two_mains(ctx):
    """one Lithium object, two complete command-line runs (`main()`), both without --tempdir: the second run gets a
    directory of its own and the first run's directory stays as it was"""
    from lithium.reducer import Lithium
    cwd = os.getcwd()
    d = fresh_dir("c20-two-mains")
    (d / "c20_test.py").write_text("def interesting(args, prefix):\n    return b'b' in open(args[-1], 'rb').read()\n")
    (d / "tc.txt").write_bytes(b"a\nb\nc\nd\n")
    os.chdir(d)
    import sys as _sys
    _sys.modules.pop("c20_test", None)
    try:
        lith = Lithium()
        rc1 = lith.main(["c20_test.py", "tc.txt"])
        first = {n: (d / "tmp1" / n).read_bytes() for n in sorted(os.listdir(d / "tmp1"))} if (d / "tmp1").is_dir() else None
        (d / "tc.txt").write_bytes(b"a\nb\nc\nd\ne\nf\n")
        rc2 = lith.main(["--char", "c20_test.py", "tc.txt"])
        names = sorted(n for n in os.listdir(d) if n.startswith("tmp"))
        after = {n: (d / "tmp1" / n).read_bytes() for n in sorted(os.listdir(d / "tmp1"))} if (d / "tmp1").is_dir() else None
    except BaseException as exc:  # pylint: disable=broad-except
        os.chdir(cwd)
        ctx.fail("sequential", f"two main() calls on one object raised {exc!r}", dict(via="two main() calls"))
        return
    finally:
        os.chdir(cwd)
        _sys.modules.pop("c20_test", None)
    ctx.evaluations += 1
    ctx.bump("two-mains")
    if (rc1, rc2) != (0, 0) or names != ["tmp1", "tmp2"] or first is None or first != after:
        ctx.fail("sequential", f"two main() calls on one Lithium object: statuses {(rc1, rc2)}, directories {names}, "
                 f"first run's directory {'unchanged' if first == after else 'CHANGED by the second run'}", dict(via="two main() calls"))


def run(ctx) -> int:
    proof = common.proof_stage(ctx.pid)
    two_mains(ctx)
    sequential(ctx)
    faults(ctx)
    whole_runs(ctx)
    neighbours_empty_directory(ctx)
    init_changes_directory(ctx)
    constructed_elsewhere(ctx)
    done = True
    for k, sets, limit in ((2, [(), (1,), (1, 2), (2,), (1, 3)], 1000), (3, [(), (1,), (2,), (1, 2)], 6000),
                           (4, [()] + ([(1,)] if ctx.thorough else []), 40000 if ctx.thorough else 4000)):
        for ex in sets:
            done = interleavings(ctx, k, ex, limit) and done
    if done:
        ctx.exhaustive.append("every interleaving (at mkdir/stat/listdir granularity) of 2 runs (5 pre-existing sets), 3 runs (4 sets) and 4 runs")
    processes(ctx, 40 if ctx.thorough else 4, 16 if ctx.thorough else 10)
    return common.decide(ctx, proof, RULE, assumptions=["mkdir(2) is atomic (OS); the schedule enumeration interleaves Python-level os.* calls"])


def replay(rec) -> int:
    print(rec["case"])
    return 0
