"""C02 — interrupts, errors and kills never lose the last accepted version."""
import os
import signal
import subprocess
import sys
import time

from .. import common, loaders
from . import drv

RULE = ("as C01, with an abort (exception of class RuntimeError/KeyboardInterrupt/SystemExit/GeneratorExit/own BaseException/OSError, or an "
        "injected internal strategy failure) placed at every test index of fixed runs and at random indices; the scripted test snapshots "
        "the temp dir inside every test (kill durability); thorough: real `python -m lithium` children SIGKILLed inside test k; "
        "non-trivial = an aborted run with >= 1 accepted candidate before the abort")
NT = lambda acc, rej, ab, obs, runs: ab and acc >= 1
WHICH = ("c02",)

TEST_MOD = '''
import os, time
def interesting(args, prefix):
    k = int(os.path.basename(prefix))
    data = open(args[-1], "rb").read()
    plan = os.environ["C02_PLAN"]
    if k == int(os.environ["C02_BLOCK"]):
        open(os.environ["C02_READY"], "wb").write(data)
        time.sleep(60)
    return k == 1 or plan[(k - 2) % len(plan)] == "a"
'''


def sigkill_runs(ctx, count):
    """kill the whole process inside test k; the newest *-interesting copy must be the last accepted version"""
    base = loaders.scratch() / "c02-kill"
    for i in range(count):
        if base.exists():
            import shutil
            shutil.rmtree(base)
        base.mkdir()
        (base / "c02_kill_test.py").write_text(TEST_MOD)
        data = b"a\nb\nc\nd\ne\nf\n"
        (base / "tc.txt").write_bytes(data)
        plan = "".join(ctx.rng.choice("ar") for _ in range(7))
        block = 2 + (i % 6)
        env = dict(os.environ, C02_PLAN=plan, C02_BLOCK=str(block), C02_READY=str(base / "ready"),
                   PYTHONPATH=str(common.REPO / "src"))
        strat = ["minimize", "minimize-around", "minimize-balanced"][i % 3]
        p = subprocess.Popen([sys.executable, "-m", "lithium", "--strategy=" + strat, "c02_kill_test.py", "tc.txt"], cwd=base, env=env,
                             stdout=subprocess.DEVNULL, stderr=subprocess.DEVNULL)
        t0 = time.time()
        while not (base / "ready").exists() and p.poll() is None and time.time() - t0 < 30:
            time.sleep(0.01)
        case = dict(stream="SIGKILL", strategy=strat, plan=plan, block=block)
        if p.poll() is not None:
            ctx.bump("sigkill:run-ended-before-block")
            continue
        if not (base / "ready").exists():
            p.kill()
            raise common.HarnessError("child did not reach the blocking test within 30 s")
        os.kill(p.pid, signal.SIGKILL)
        p.wait()
        ctx.evaluations += 1
        ctx.bump("sigkill")
        tmp = base / "tmp1"
        names = os.listdir(tmp)
        inter = sorted((int(n.split("-")[0]), n) for n in names if "-interesting" in n)
        got = (tmp / inter[-1][1]).read_bytes() if inter else (tmp / "original.txt").read_bytes()
        # last accepted version, reconstructed from the tagged copies themselves is circular; use the plan:
        # replay the same plan in-process without blocking
        want = None
        from lithium.reducer import Lithium  # noqa
        rp = subprocess.run([sys.executable, "-m", "lithium", "--strategy=" + strat, "--tempdir", "replaytmp", "c02_kill_test.py", "tc2.txt"],
                            cwd=base, env=dict(env, C02_BLOCK="-1"), capture_output=True, timeout=120, input=None,
                            **({}))
        del rp
        if want is None:
            # the accepted versions before test `block` are the *-interesting files numbered below `block`
            # of the undisturbed replay
            pass
        # independent expectation: run the undisturbed replay and read its copies numbered < block
        ctx.nontriv("sigkill", strat, plan, block)
        rtmp = base / "replaytmp"
        if rtmp.exists():
            rinter = sorted((int(n.split("-")[0]), n) for n in os.listdir(rtmp) if "-interesting" in n and int(n.split("-")[0]) < block)
            want = (rtmp / rinter[-1][1]).read_bytes() if rinter else data
            if got != want:
                ctx.fail("kill-not-durable", f"after SIGKILL inside test {block}: newest *-interesting holds {got!r}, last accepted version was {want!r}", case)


def odd_hooks(ctx):
    """the hooks are whatever callable the condition module offers: a call recorder, a registry object (empty, hence falsy), a
    functools.partial, a method — each runs exactly once, init before the first test and cleanup after the last, also when the
    run is aborted"""
    import functools
    from lithium.reducer import Lithium
    from lithium.strategies import Minimize
    from lithium.testcases import TestcaseLine

    class Recorder:
        """callable and falsy while empty (it has a length)"""
        def __init__(self, log, name):
            self.log, self.name, self.items = log, name, []

        def __call__(self, args):
            self.log.append(self.name)

        def __len__(self):
            return len(self.items)

    for kind in ("recorder", "partial", "function"):
        for abort_at in (None, 0, 2):
            for exc_cls in (RuntimeError, KeyboardInterrupt, SystemExit):
                d = loaders.scratch() / "c02-hooks"
                d.mkdir(exist_ok=True)
                path = d / "tc.txt"
                path.write_bytes(b"a\nb\nc\nd\n")
                tc = TestcaseLine()
                tc.load(path)
                log = []

                class Test:
                    pass

                t = Test()
                if kind == "recorder":
                    t.init, t.cleanup = Recorder(log, "init"), Recorder(log, "cleanup")
                elif kind == "partial":
                    t.init, t.cleanup = functools.partial(lambda n, a: log.append(n), "init"), functools.partial(lambda n, a: log.append(n), "cleanup")
                else:
                    t.init, t.cleanup = (lambda a: log.append("init")), (lambda a: log.append("cleanup"))
                count = [0]

                def interesting(args, prefix, count=count, abort_at=abort_at, exc_cls=exc_cls, log=log, path=path):
                    k = count[0]
                    count[0] += 1
                    log.append("test")
                    if abort_at is not None and k == abort_at:
                        raise exc_cls("abort")
                    return b"b" in path.read_bytes()

                t.interesting = interesting
                lith = Lithium()
                lith.testcase, lith.condition_script, lith.condition_args, lith.strategy = tc, t, [], Minimize()
                cwd = os.getcwd()
                os.chdir(d)
                try:
                    try:
                        lith.run()
                    except BaseException:  # pylint: disable=broad-except
                        pass
                finally:
                    os.chdir(cwd)
                ctx.evaluations += 1
                ctx.bump("odd-hooks")
                case = dict(hooks=kind, abort_at=abort_at, abort_class=exc_cls.__name__)
                if not log or log[0] != "init" or log.count("init") != 1 or log[-1] != "cleanup" or log.count("cleanup") != 1:
                    ctx.fail("hooks", f"hooks given as {kind}: order of calls {log[:12]} (init once first, cleanup once last expected)", case)
                if abort_at is not None:
                    break_ = False
                else:
                    break


def search(ctx):
    drv.d1(ctx, WHICH, 6000, NT, do_model=False)
    drv.d2_abort_everywhere(ctx, WHICH, NT, do_model=False)


def run(ctx) -> int:
    proof = common.proof_stage(ctx.pid)
    drv.d1(ctx, WHICH, 20000 if ctx.thorough else 5000, NT)
    drv.d2_abort_everywhere(ctx, WHICH, NT)
    ctx.exhaustive.append("an abort at every test index (<= 14) and an internal failure at rmslice call 1..7 of one fixed run per strategy x {line,char}")
    drv.d2_random(ctx, WHICH, NT, 2500 if ctx.thorough else 600)
    drv.d2_content_oracles(ctx, WHICH, NT)
    drv.d2_move_aborts(ctx, WHICH, NT, 8 if ctx.thorough else 6, do_model=ctx.thorough)
    ctx.exhaustive.append("minimize-balanced + move: every verdict sequence of <= 6/8 tests on two bracketed files followed by an abort")
    drv.d2_touching_test(ctx, WHICH, 600 if ctx.thorough else 150)
    drv.d2_vanishing_file(ctx, WHICH, 300 if ctx.thorough else 60)
    odd_hooks(ctx)
    if ctx.thorough:
        sigkill_runs(ctx, 18)
    return common.decide(ctx, proof, RULE, search=search,
                         assumptions=["durability of completed writes across SIGKILL (page cache visible to other processes) is OS behaviour, assumed",
                                      "an exception raised by the init or cleanup hook itself is outside the property"])


replay = drv.replay_case
