"""C14 — chunk-size, repeat and time-limit options are honoured.

Correspondence: real minimize vs the model under option grid x verdict scripts x clock scripts;
`is_power_of_two` / `largest_power_of_two_smaller_than` vs the model on ranges of integers.
Monitor: block structure of every minimize candidate, resweep rule, refusal of non-powers by the
real `process_args`, no test started after the time limit (minimize, around, balanced, +move)."""
from __future__ import annotations

import contextlib
import io

import os

from .. import common, loaders, strat

RULE = ("minimize: (min,max) in {1,2,4,8,16}^2 with min<=max, --chunk-size, repeat in {always,last,never}, repeat-first, n <= 40, random "
        "verdict scripts; time limits with a scripted clock that jumps past the limit at every test index; process_args on all integers in "
        "[-70,1100] and random 64-bit values for --min/--max/--chunk-size; non-trivial = a run that changed chunk size and repeated a sweep, "
        "or a run stopped by the deadline; distinct by (options, n, verdicts, clock)")


def is_pow2(k):
    return k >= 1 and (k & (k - 1)) == 0


def lp2_spec(n):
    """largest power of two smaller than n (1 for n <= 1)"""
    p = 1
    while p * 2 < n:
        p *= 2
    return p


def spec_delete_block(f, s, e):
    out_p, out_r, rank = [], [], 0
    for p, r in zip(f[1], f[2]):
        if r:
            if not (s <= rank < e):
                out_p.append(p)
                out_r.append(r)
            rank += 1
        else:
            out_p.append(p)
            out_r.append(r)
    return (f[0], out_p, out_r, f[3])


def check_blocks(ctx, cfg, f, run, case):
    n0 = sum(1 for r in f[2] if r)
    mn, mx, rep = max(cfg.get("min", 1), 1), cfg.get("max", 2**30), cfg.get("rep", "last")
    eff_max = min(mx, lp2_spec(n0))
    prev_size = None
    sweeps = []  # (size, accepted_any) per sweep; a new sweep starts when lo does not decrease
    last_hi = None
    for a in run.atts:
        s, e, n = a["lo"], a["hi"], a["n"]
        best = a["best_before"]
        nb = sum(1 for r in best[2] if r)
        if not (0 <= s < e <= nb) or n != nb:
            ctx.fail("block-range", f"candidate {a['desc']!r} with {nb} atoms left", case)
            return
        if a["cand"] != spec_delete_block(best, s, e):
            ctx.fail("not-one-block", f"candidate {a['desc']!r} is not the current best minus the block [{s},{e})", case)
            return
        size = e - s
        whole = s == 0 and e == nb
        if not is_pow2(size) and not whole:
            ctx.fail("size-not-pow2", f"block [{s},{e}) of {nb}: size {size} is not a power of two and not the entire remainder", case)
            return
        if size > eff_max:
            ctx.fail("size-above-max", f"block size {size} > effective maximum {eff_max} (max={mx}, n={n0})", case)
            return
        if prev_size is not None and size > prev_size:
            ctx.fail("size-increased", f"block size went from {prev_size} to {size}", case)
            return
        if mn <= mx and size < mn and nb > mn:
            ctx.fail("size-below-min", f"block size {size} < min {mn} while {nb} atoms remain", case)
            return
        prev_size = size
        new_sweep = last_hi is None or e > last_hi
        if new_sweep:
            # --repeat-first-round: "Treat the first round as if it removed chunks" (documented option)
            sweeps.append([size, bool(cfg.get("repeat_first")) and not sweeps])
        if a["resp"] == "a":
            sweeps[-1][1] = True
        last_hi = e if a["resp"] != "a" else s
        if a["resp"] == "a":
            last_hi = s
    # resweep rule
    sizes_seen = [s for s, _ in sweeps]
    smallest_allowed = None
    for i in range(1, len(sweeps)):
        if sweeps[i][0] == sweeps[i - 1][0]:
            if not sweeps[i - 1][1]:
                ctx.fail("resweep-without-removal", f"chunk size {sweeps[i][0]} swept again although the previous sweep removed nothing", case)
                return
            if rep == "never":
                ctx.fail("resweep-never", f"repeat=never but chunk size {sweeps[i][0]} was swept twice", case)
                return
            if rep == "last" and sweeps[i][0] > min(eff_max, mn):
                ctx.fail("resweep-last", f"repeat=last but chunk size {sweeps[i][0]} (not the smallest) was swept twice", case)
                return
    if len(sweeps) >= 3 and len(set(sizes_seen)) >= 2 and any(sizes_seen[i] == sizes_seen[i - 1] for i in range(1, len(sizes_seen))):
        ctx.nontriv(repr(sorted(cfg.items())), case["n"], case["verdicts"])
        ctx.sample(dict(cfg=cfg, n=case["n"], sweeps=sizes_seen[:20]), limit=4)


def one(ctx, cfg, n, seq, clock=None, do_model=True, name="minimize", parts=None, red=None):
    parts = parts or [b"%d\n" % i for i in range(n)]
    f = (b"", parts, list(red) if red is not None else [True] * n, b"")
    tc = strat.testcase_from_fields("line", f)
    if name == "minimize-collapse-brace":
        tc.filename = str(loaders.scratch() / "c14-collapse.txt")
    run = strat.run_real(name, cfg, tc, lambda k, c: seq[k % len(seq)], clock_times=clock, max_tests=20000)
    case = dict(strategy=name, cfg=cfg, n=n, verdicts="".join("1" if v else "0" for v in run.verdicts[:150]), clock=(clock or [])[:40])
    endless = bool(run.error) and ("test-limit" in run.error or "hang" in run.error)
    if do_model and name in strat.MODELLED and not (cfg.get("move") and endless):
        ctx.expect(name, strat.model_line(name, cfg, f, run.verdicts, clock), run.encode(), case)
    else:
        ctx.evaluations += 1
    if run.error and not (cfg.get("move") and "AssertionError" in run.error):
        ctx.fail("internal-error", f"{name}: {run.error}", case)
    if name == "minimize" and clock is None:
        check_blocks(ctx, cfg, f, run, case)
    if name == "minimize-collapse-brace" and clock is None and not run.error:
        # the same sweep loop with a brace-collapsing step between the sweeps: the block clauses hold for its deletions too
        # (the atom count may only drop when the collapsed text is re-split, so the effective maximum of the start still bounds them)
        import copy
        r2 = copy.copy(run)
        r2.atts = [a for a in run.atts if a["tag"] == 0]
        check_blocks(ctx, cfg, f, r2, case)
    if clock is not None:
        if run.late_tests:
            ctx.fail("test-after-deadline", f"{name}: {run.late_tests} test(s) started after the time limit had passed", case)
        limit = cfg.get("stop_after")
        if limit is not None and any(t > clock[0] + limit for t in clock):
            ctx.nontriv(name, repr(sorted(cfg.items())), n, tuple(clock[:30]), case["verdicts"])
            ctx.bump("deadline-runs:" + name)
    return run


def grid(ctx, thorough, do_model=True):
    rng = ctx.rng
    pw = [1, 2, 4, 8, 16]
    ns = [1, 2, 3, 5, 8, 9, 16, 17, 23, 32, 40]
    for n in ns:
        for mn in pw:
            for mx in pw:
                if mn > mx:
                    continue
                for rep in ("always", "last", "never"):
                    for rf in (False, True):
                        if not thorough and rng.random() < 0.5:
                            continue
                        p = rng.choice([0.1, 0.3, 0.6, 0.9])
                        seq = [rng.random() < p for _ in range(397)]
                        one(ctx, dict(min=mn, max=mx, rep=rep, repeat_first=rf), n, seq, do_model=do_model)
        for cs in pw:
            seq = [rng.random() < 0.4 for _ in range(397)]
            one(ctx, dict(min=cs, max=cs, rep="never"), n, seq, do_model=do_model)
        for rep in ("always", "last", "never"):
            seq = [rng.random() < 0.5 for _ in range(397)]
            one(ctx, dict(rep=rep), n, seq, do_model=do_model)


def reused_strategy(ctx):
    """ONE strategy object reduces several files one after the other (small ones first): every run honours the options the
    object was configured with, as a fresh object does"""
    rng = ctx.rng
    for cfg in (dict(min=4), dict(min=2, max=8), dict(min=4, rep="always"), dict(max=4), dict()):
        st = strat.make_strategy("minimize", cfg)
        for n in (3, 16, 2, 40, 5, 64):
            parts = [b"%d\n" % i for i in range(n)]
            f = (b"", parts, [True] * n, b"")
            for p in (0.0, 0.3):
                seq = [rng.random() < p for _ in range(211)]
                tc = strat.testcase_from_fields("line", f)
                run = strat.run_real("minimize", cfg, tc, lambda k, c, seq=seq: seq[k % 211], max_tests=20000, strategy=st)
                ctx.evaluations += 1
                ctx.bump("reused-strategy")
                case = dict(strategy="minimize", cfg=cfg, n=n, verdicts="".join("1" if v else "0" for v in run.verdicts[:150]),
                            reused_strategy_object=True)
                if run.error:
                    ctx.fail("internal-error", f"minimize (re-used strategy object): {run.error}", case)
                check_blocks(ctx, cfg, f, run, case)


def collapse_blocks(ctx, thorough, do_model=True):
    rng = ctx.rng
    toks = [b"{\n", b"}\n", b"a\n", b"\n", b" \n", b"b{\n", b"x\n", b"y\n"]
    for n in (4, 8, 9, 16, 17, 32, 33) + ((64,) if thorough else ()):
        for rep in range(6 if thorough else 3):
            parts = [rng.choice(toks) for _ in range(n)]
            # a brace body that can be emptied during a sweep
            i = rng.randrange(max(1, n - 3))
            parts[i:i + 3] = [b"f() {\n", b"body\n", b"}\n"][: n - i]
            for cfg in (dict(), dict(rep="always"), dict(max=4)):
                p = rng.choice([0.3, 0.6, 0.9])
                seq = [rng.random() < p for _ in range(397)]
                one(ctx, cfg, len(parts), seq, do_model=do_model, name="minimize-collapse-brace", parts=parts)


def layouts(ctx, thorough, do_model=True):
    """testcases with non-reducible parts between the atoms (as --js / --attrs produce): the effective maximum and
    every block are counted in reducible atoms, not in parts"""
    rng = ctx.rng
    import itertools
    for n in range(2, 10 if thorough else 8):
        masks = list(itertools.product((True, False), repeat=n))
        rng.shuffle(masks)
        for red in masks[:64 if thorough else 20]:
            if not any(red):
                continue
            for cfg in (dict(), dict(rep="always"), dict(max=2), dict(min=2, max=4, rep="never")):
                seq = [rng.random() < rng.choice([0.0, 0.3, 0.7]) for _ in range(97)]
                one(ctx, cfg, n, seq, do_model=do_model, red=red)


def deadlines(ctx, thorough, do_model=True):
    rng = ctx.rng
    brace = [b"{\n", b"a\n", b"}\n", b"b\n", b"(\n", b"c\n", b")\n", b"d\n", b"{\n", b"}\n"]
    for name, extra in (("minimize", {}), ("minimize-around", {}), ("minimize-balanced", {}), ("minimize-balanced", {"move": True})):
        for n in (6, 10):
            seq = [rng.random() < 0.5 for _ in range(101)]
            base = one(ctx, dict(extra, rep="always"), n, seq, clock=None, do_model=False, name=name, parts=brace[:n])
            total = len(base.verdicts)
            for jump in range(0, min(total, 25) + 1):
                clock = [0] * jump + [1000]
                one(ctx, dict(extra, rep="always", stop_after=10), n, seq, clock=clock, do_model=do_model, name=name, parts=brace[:n])
            # a clock with fractions of a second: a run that starts at x.75 s with a 2 s limit must not start a test after x+2.75 s
            # (monitor only: the model's clock counts whole ticks)
            for frac, step in ((0.75, 0.25), (0.5, 0.5), (0.999, 0.4)):
                clock = [1000 + frac + step * k for k in range(60)]
                one(ctx, dict(extra, rep="always", stop_after=2), n, [False] * 101, clock=clock, do_model=False, name=name, parts=brace[:n])
            for _ in range(12 if thorough else 4):
                clock, t = [], 0
                for _k in range(40):
                    t += rng.choice([0, 1, 3, 7])
                    clock.append(t)
                one(ctx, dict(extra, rep="always", stop_after=rng.choice([0, 5, 20])), n, seq, clock=clock, do_model=do_model, name=name,
                    parts=brace[:n])


def pow2_cases(ctx, thorough):
    """is_power_of_two / largest_power_of_two_smaller_than vs the model; process_args refuses exactly the non-powers"""
    from lithium import util
    from lithium.reducer import Lithium

    rng = ctx.rng
    ints = list(range(-70, 1101)) + [2**k + d for k in (20, 31, 32, 33, 62, 63, 64, 65) for d in (-1, 0, 1)] + \
        [rng.randrange(-2**64, 2**64) for _ in range(300)]
    for i in ints:
        real = util.is_power_of_two(i)
        ctx.expect("pow2", f"pow2 {i}", "1" if real else "0", dict(fn="is_power_of_two", i=i))
        if real != (i >= 1 and (i & (i - 1)) == 0):
            ctx.fail("pow2", f"is_power_of_two({i}) = {real}", dict(i=i))
        if i >= 0:
            r = util.largest_power_of_two_smaller_than(i)
            ctx.expect("lp2", f"lp2 {i}", str(r), dict(fn="lp2", i=i))
            if r != lp2_spec(i):
                ctx.fail("lp2", f"largest_power_of_two_smaller_than({i}) = {r}", dict(i=i))
    d = loaders.scratch() / "c14-cli"
    d.mkdir(exist_ok=True)
    (d / "c14_probe_test.py").write_text("def interesting(a, p):\n    return True\n")
    (d / "tc.txt").write_bytes(b"a\nb\nc\n")
    cwd = os.getcwd()
    os.chdir(d)
    try:
        vals = list(range(-3, 70)) + [96, 127, 128, 129, 1000, 1024, 2**30, 2**30 + 1, 2**31, 2**40 + 1]
        if thorough:
            vals += list(range(70, 1100))
        for opt in ("--min", "--max", "--chunk-size"):
            for v in vals:
                lith = Lithium()
                try:
                    with contextlib.redirect_stderr(io.StringIO()):  # argparse prints its usage text on refusal
                        lith.process_args([f"{opt}={v}", "c14_probe_test.py", "tc.txt"])
                    refused = False
                except SystemExit:
                    refused = True
                ctx.evaluations += 1
                ctx.bump("cli:" + opt)
                if refused == is_pow2(v):
                    ctx.fail("cli-pow2", f"{opt}={v} was {'refused' if refused else 'accepted'}", dict(opt=opt, value=v))
                elif not refused and opt == "--chunk-size":
                    st = lith.strategy
                    if (st.minimize_min, st.minimize_max, st.minimize_repeat) != (v, v, "never"):
                        ctx.fail("cli-chunk-size", f"--chunk-size={v} gave min={st.minimize_min} max={st.minimize_max} repeat={st.minimize_repeat}",
                                 dict(opt=opt, value=v))
    finally:
        os.chdir(cwd)


def option_order(ctx):
    """--chunk-size=n means min=max=n with a single sweep wherever it stands on the command line: options given before or
    after it do not undo part of it"""
    import contextlib
    import io
    from lithium.reducer import Lithium
    d = loaders.scratch() / "c14-cli"
    d.mkdir(exist_ok=True)
    (d / "c14_probe_test.py").write_text("def interesting(a, p):\n    return True\n")
    (d / "tc.txt").write_bytes(b"a\nb\nc\n")
    cwd = os.getcwd()
    os.chdir(d)
    try:
        others = [["--repeat=always"], ["--repeat=last"], ["--min=2"], ["--max=8"], ["--min=1", "--max=16"], ["--repeat-first-round"]]
        for extra in others:
            for argv in (["--chunk-size=4"] + extra, extra + ["--chunk-size=4"]):
                lith = Lithium()
                case = dict(argv=argv)
                try:
                    with contextlib.redirect_stderr(io.StringIO()):
                        lith.process_args(argv + ["c14_probe_test.py", "tc.txt"])
                except (SystemExit, Exception) as exc:  # pylint: disable=broad-except
                    ctx.fail("cli-raises", f"process_args({argv}) raised {type(exc).__name__}: {exc}", case)
                    continue
                ctx.evaluations += 1
                ctx.bump("option-order")
                st = lith.strategy
                got = (st.minimize_min, st.minimize_max, st.minimize_repeat)
                if got != (4, 4, "never"):
                    ctx.fail("chunk-size-overridden", f"{argv}: min/max/repeat in force are {got}, --chunk-size=4 means (4, 4, 'never')", case)
    finally:
        os.chdir(cwd)


def known_finding_cases(ctx):
    # min > max is accepted: blocks of `max` atoms are used while more than `min` atoms remain
    seq = [False] * 50
    f_case = dict(min=8, max=2, rep="last")
    parts = [b"%d\n" % i for i in range(20)]
    f = (b"", parts, [True] * 20, b"")
    tc = strat.testcase_from_fields("line", f)
    run = strat.run_real("minimize", f_case, tc, lambda k, c: False)
    sizes = {a["hi"] - a["lo"] for a in run.atts}
    if any(s < 8 for s in sizes):
        ctx.fail("min-above-max", f"--min 8 --max 2 is accepted and blocks of sizes {sorted(sizes)} are used while 20 atoms remain",
                 dict(cfg=f_case, n=20))


def search(ctx):
    layouts(ctx, True, do_model=False)
    collapse_blocks(ctx, True, do_model=False)
    grid(ctx, True, do_model=False)
    deadlines(ctx, True, do_model=False)


def run(ctx) -> int:
    proof = common.proof_stage(ctx.pid)
    known_finding_cases(ctx)
    grid(ctx, ctx.thorough)
    layouts(ctx, ctx.thorough)
    collapse_blocks(ctx, ctx.thorough)
    reused_strategy(ctx)
    deadlines(ctx, ctx.thorough)
    ctx.exhaustive.append("a clock jump past the limit at every test index (<= 25) of fixed runs of minimize, around, balanced, balanced+move")
    pow2_cases(ctx, ctx.thorough)
    option_order(ctx)
    ctx.exhaustive.append("is_power_of_two / largest_power_of_two_smaller_than on every integer in [-70, 1100]")
    return common.decide(ctx, proof, RULE, search=search,
                         assumptions=["the block-size clauses are stated for min <= max; min > max is a recorded finding",
                                      "time.time() is replaced by a clock that is a function of the number of tests run"])


def replay(rec) -> int:
    print(rec["case"])
    return 0
