"""C18 — child outcome classification and output capture are exact.

Real children through `timed_run` in both capture modes; every (timed out?, return code) pair
observed is also classified by the model.  Monitor: the property's words."""
from __future__ import annotations

import os
import sys

from .. import common, loaders

RULE = ("real children: every exit code 0..255, every signal that terminates a process (self-delivered), finishing before / sleeping past the "
        "limit, binary output of 0, 1, 65535, 65536, 65537 and 2^20 bytes on each stream, output before a timeout; each in both capture modes; "
        "crashes / hangs verdicts; non-trivial = one per distinct (termination kind, code, capture mode)")

TERM_SIGNALS = [1, 2, 3, 4, 5, 6, 7, 8, 9, 10, 11, 12, 13, 14, 15, 16, 24, 25, 26, 27, 29, 30, 31] + list(range(34, 65))

WRITER = ("import os,sys,time\n"
          "n=int(sys.argv[1]); m=int(sys.argv[2]); nap=float(sys.argv[3]); rc=int(sys.argv[4])\n"
          "def blob(k,s): return bytes((i*7+s)%256 for i in range(k))\n"
          "o=blob(n,1); e=blob(m,2)\n"
          "i=j=0\n"
          "while i<len(o) or j<len(e):\n"
          "    if i<len(o): i+=os.write(1,o[i:i+40000])\n"
          "    if j<len(e): j+=os.write(2,e[j:j+40000])\n"
          "time.sleep(nap)\n"
          "os._exit(rc)\n")


def blob(k, s):
    return bytes((i * 7 + s) % 256 for i in range(k))


def alive(pid):
    try:
        os.kill(pid, 0)
        return True
    except ProcessLookupError:
        return False
    except PermissionError:
        return True


def run_case(ctx, cmd, timeout, expect_status, expect_rc, expect_out=None, expect_err=None, label=""):
    from lithium.interestingness import crashes, hangs, timed_run

    for mode in ("pipe", "file", "file-dotted"):
        prefix = None
        if mode == "file":
            prefix = str(loaders.scratch() / f"c18-{os.getpid()}")
        elif mode == "file-dotted":
            # a log prefix whose last component has dots (a testcase name, a version number)
            prefix = str(loaders.scratch() / f"c18.case-1.2.{os.getpid()}")
        case = dict(cmd=cmd[:3] + (["..."] if len(cmd) > 3 else []), timeout=timeout, mode=mode, label=label)
        ctx.evaluations += 1
        try:
            rd = timed_run.timed_run(cmd, timeout, prefix)
        except Exception as exc:  # pylint: disable=broad-except
            ctx.fail("timed-run-raises", f"{label}/{mode}: timed_run raised {type(exc).__name__}: {exc}", case)
            continue
        if prefix is not None and (str(rd.out) != prefix + "-out.txt" or str(rd.err) != prefix + "-err.txt"):
            ctx.fail("log-names", f"{label}/{mode}: output files {rd.out} / {rd.err} for the prefix {prefix}", case)
        status = rd.status.name
        timed_out = status == "TIMEOUT"
        rc = rd.return_code
        if status != expect_status:
            ctx.fail("status", f"{label}: status {status}, expected {expect_status}", case)
        if rc != expect_rc:
            ctx.fail("return-code", f"{label}: return_code {rc}, expected {expect_rc}", case)
        if alive(rd.pid):
            ctx.fail("child-alive", f"{label}: child {rd.pid} still exists after timed_run returned", case)
        if mode == "pipe":
            out, err = rd.out, rd.err
        else:
            out, err = open(rd.out, "rb").read(), open(rd.err, "rb").read()
        if not isinstance(out, bytes) or not isinstance(err, bytes):
            ctx.fail("capture-type", f"{label}/{mode}: captured stdout/stderr are {type(out).__name__}/{type(err).__name__}, not bytes", case)
            continue
        if expect_out is not None and out != expect_out:
            ctx.fail("stdout", f"{label}/{mode}: captured {len(out)} bytes of stdout, the child wrote {len(expect_out)}"
                     + ("" if len(out) != len(expect_out) else " (content differs)"), case)
        if expect_err is not None and err != expect_err:
            ctx.fail("stderr", f"{label}/{mode}: captured {len(err)} bytes of stderr, the child wrote {len(expect_err)}"
                     + ("" if len(err) != len(expect_err) else " (content differs)"), case)
        # the model classifies the same observation; for a timeout the real code does not expose the raw code
        raw = expect_rc if expect_rc is not None else 0
        ctx.expect("classify", f"classify {1 if timed_out else 0} {raw}",
                   f"{status} {'N' if rc is None else rc} {1 if status == 'CRASH' else 0} {1 if status == 'TIMEOUT' else 0}", case)
        ctx.nontriv(label.split(":")[0], expect_status, expect_rc, mode)
        ctx.bump(f"{mode}:{expect_status}")
    # the two interestingness modules built on the status
    args = ["-t", str(timeout)] + cmd
    for mod, want in ((crashes, expect_status == "CRASH"), (hangs, expect_status == "TIMEOUT")):
        if timeout > 1 and expect_status == "TIMEOUT":
            continue
        ctx.evaluations += 1
        try:
            got = mod.interesting(args, None)
        except Exception as exc:  # pylint: disable=broad-except
            ctx.fail("verdict-raises", f"{label}: {mod.__name__.split('.')[-1]} raised {type(exc).__name__}: {exc}", dict(cmd=cmd[:3], label=label))
            continue
        if bool(got) != want:
            ctx.fail("verdict", f"{label}: {mod.__name__.split('.')[-1]} returned {got} for status {expect_status}",
                     dict(cmd=cmd[:3], label=label))


STUBBORN = ("import os, signal, sys, time\nsignal.signal(signal.SIGTERM, signal.SIG_IGN)\nsignal.signal(signal.SIGINT, signal.SIG_IGN)\n"
            "open(sys.argv[1], 'w').write(str(os.getpid()))\nos.write(1, b'out before the limit'); os.write(2, b'err')\ntime.sleep(25)\n")


def stubborn_child(ctx):
    """a child that ignores SIGTERM/SIGINT and sleeps past the limit: the runner must be back soon after the limit with
    TIMEOUT, the child must be gone and its output captured (only SIGKILL ends such a child)"""
    import signal
    from lithium.interestingness import timed_run

    class Blocked(Exception):
        pass

    def on_alarm(signum, frame):
        raise Blocked()

    script = str(loaders.scratch() / "c18_stubborn.py")
    open(script, "w").write(STUBBORN)
    for mode in ("pipe", "file"):
        pidfile = loaders.scratch() / f"c18-stubborn-{mode}.pid"
        if pidfile.exists():
            pidfile.unlink()
        prefix = None if mode == "pipe" else str(loaders.scratch() / f"c18-stubborn-{os.getpid()}")
        case = dict(cmd=["python", "c18_stubborn.py"], timeout=1, mode=mode, label="stubborn-child")
        old = signal.signal(signal.SIGALRM, on_alarm)
        signal.setitimer(signal.ITIMER_REAL, 8.0)
        rd = None
        try:
            rd = timed_run.timed_run([sys.executable, script, str(pidfile)], 1, prefix)
        except Blocked:
            ctx.fail("runner-blocked", f"stubborn-child/{mode}: timed_run was not back 8 s after a 1 s limit (the child ignores SIGTERM)", case)
        except Exception as exc:  # pylint: disable=broad-except
            ctx.fail("timed-run-raises", f"stubborn-child/{mode}: timed_run raised {type(exc).__name__}: {exc}", case)
        finally:
            signal.setitimer(signal.ITIMER_REAL, 0)
            signal.signal(signal.SIGALRM, old)
        ctx.evaluations += 1
        ctx.bump("stubborn-child")
        pid = int(pidfile.read_text()) if pidfile.exists() and pidfile.read_text().strip() else None
        if rd is not None:
            if rd.status.name != "TIMEOUT" or rd.return_code is not None:
                ctx.fail("status", f"stubborn-child/{mode}: status {rd.status.name}, return_code {rd.return_code}", case)
            out = rd.out if mode == "pipe" else open(rd.out, "rb").read()
            if out != b"out before the limit":
                ctx.fail("stdout", f"stubborn-child/{mode}: captured {out!r}", case)
            if pid is not None and alive(pid):
                ctx.fail("child-alive", f"stubborn-child/{mode}: child {pid} still exists after timed_run returned", case)
            ctx.nontriv("stubborn-child", mode)
        if pid is not None and alive(pid):
            try:
                os.kill(pid, signal.SIGKILL)
            except ProcessLookupError:
                pass


def lingering_descendant(ctx):
    """log-file capture: the child is what is timed and classified — a launcher that starts a background helper (which keeps
    the log files open) and exits at once with its code has ended, long before the limit, with that code"""
    import time
    from lithium.interestingness import timed_run

    for code, want in ((0, "NORMAL"), (3, "ABNORMAL"), (77, "CRASH")):
        prefix = str(loaders.scratch() / f"c18-linger-{os.getpid()}")
        cmd = ["/bin/sh", "-c", f"echo started; sleep 4 & exit {code}"]
        case = dict(cmd=cmd, timeout=2, mode="file", label=f"lingering-descendant:{code}")
        ctx.evaluations += 1
        ctx.bump("lingering-descendant")
        t0 = time.monotonic()
        try:
            rd = timed_run.timed_run(cmd, 2, prefix)
        except Exception as exc:  # pylint: disable=broad-except
            ctx.fail("timed-run-raises", f"lingering-descendant:{code}/file: timed_run raised {type(exc).__name__}: {exc}", case)
            continue
        took = time.monotonic() - t0
        if rd.status.name != want or rd.return_code != code:
            ctx.fail("status", f"lingering-descendant:{code}/file: status {rd.status.name}, return_code {rd.return_code} after {took:.1f} s; the child "
                     f"exited at once with {code} (expected {want})", case)
        elif open(rd.out, "rb").read() != b"started\n":
            ctx.fail("stdout", f"lingering-descendant:{code}/file: log holds {open(rd.out, 'rb').read()!r}", case)
        ctx.nontriv("lingering-descendant", code)


def optional_parameters(ctx):
    """the same outcomes when the caller uses timed_run's optional parameters (`preexec_fn`, `env`, `inp`): a child that
    sleeps past the limit is killed AT the limit and reported TIMEOUT, one that ends earlier is classified by its code"""
    import signal
    import time
    from lithium.interestingness import timed_run

    class Blocked(Exception):
        pass

    def on_alarm(signum, frame):
        raise Blocked()

    marker = loaders.scratch() / "c18-survived.txt"
    for label, kwargs in (("preexec_fn", dict(preexec_fn=lambda: None)), ("preexec_fn-umask", dict(preexec_fn=lambda: os.umask(0o22))),
                          ("env", dict(env=dict(os.environ, C18_X="1"))), ("inp", dict(inp="some input\n"))):
        for mode in ("pipe", "file"):
            prefix = None if mode == "pipe" else str(loaders.scratch() / f"c18-opt-{os.getpid()}")
            for cmd, limit, want, want_rc in (([sys.executable, "-c", f"import time; time.sleep(6); open({str(marker)!r}, 'w').write('x')"], 1, "TIMEOUT", None),
                                              (["/bin/sh", "-c", "exit 3"], 10, "ABNORMAL", 3), (["/bin/sh", "-c", "kill -11 $$"], 10, "CRASH", -11)):
                if marker.exists():
                    marker.unlink()
                case = dict(cmd=cmd[:2] + ["..."], timeout=limit, mode=mode, label=f"optional-parameter:{label}")
                ctx.evaluations += 1
                ctx.bump("optional-parameters")
                old = signal.signal(signal.SIGALRM, on_alarm)
                signal.setitimer(signal.ITIMER_REAL, 5.0)
                t0 = time.monotonic()
                rd = None
                try:
                    rd = timed_run.timed_run(cmd, limit, prefix, **kwargs)
                except Blocked:
                    ctx.fail("runner-blocked", f"{label}/{mode}: timed_run was not back 5 s after a {limit} s limit (child: {cmd[:2]})", case)
                except Exception as exc:  # pylint: disable=broad-except
                    ctx.fail("timed-run-raises", f"{label}/{mode}: timed_run raised {type(exc).__name__}: {exc}", case)
                finally:
                    signal.setitimer(signal.ITIMER_REAL, 0)
                    signal.signal(signal.SIGALRM, old)
                took = time.monotonic() - t0
                if rd is not None:
                    if rd.status.name != want or rd.return_code != want_rc:
                        ctx.fail("status", f"{label}/{mode}: status {rd.status.name}, return_code {rd.return_code} for {cmd[:3]}; expected {want}, {want_rc}", case)
                    elif want == "TIMEOUT" and (took > 3.5 or alive(rd.pid)):
                        ctx.fail("child-alive", f"{label}/{mode}: back after {took:.1f} s for a 1 s limit; child {rd.pid} alive: {alive(rd.pid)}", case)
                    ctx.nontriv("optional-parameters", label, mode, want)
    time.sleep(0.1)
    if marker.exists():
        marker.unlink()


def preset_environment(ctx):
    """the classification does not depend on what the caller's environment says about sanitizers: exit code 77 is the
    crash code, whatever `exitcode=` an inherited ASAN_OPTIONS names"""
    saved = os.environ.get("ASAN_OPTIONS")
    os.environ["ASAN_OPTIONS"] = "detect_leaks=0:exitcode=42:abort_on_error=0"
    try:
        for n, st in ((0, "NORMAL"), (42, "ABNORMAL"), (77, "CRASH"), (1, "ABNORMAL")):
            run_case(ctx, ["/bin/sh", "-c", f"exit {n}"], 10, st, n, b"", b"", label=f"asan-env-exit:{n}")
    finally:
        if saved is None:
            os.environ.pop("ASAN_OPTIONS", None)
        else:
            os.environ["ASAN_OPTIONS"] = saved


def run(ctx) -> int:
    common.default_signal_dispositions()
    proof = common.proof_stage(ctx.pid)
    stubborn_child(ctx)
    lingering_descendant(ctx)
    optional_parameters(ctx)
    preset_environment(ctx)
    sh = "/bin/sh"
    codes = range(0, 256)
    for n in codes:
        st = "NORMAL" if n == 0 else ("CRASH" if n == 77 else "ABNORMAL")
        run_case(ctx, [sh, "-c", f"exit {n}"], 10, st, n, b"", b"", label=f"exit:{n}")
    sigs = TERM_SIGNALS
    for s in sigs:
        run_case(ctx, [sh, "-c", f"kill -{s} $$"], 10, "CRASH", -s, b"", b"", label=f"signal:{s}")
    ctx.exhaustive.append("every exit code 0..255 and every terminating signal (1..64 minus the stop/ignore-by-default ones), both capture modes")
    w = str(loaders.scratch() / "c18_writer.py")
    open(w, "w").write(WRITER)
    sizes = [(0, 0), (1, 0), (0, 1), (65535, 3), (65536, 65536), (65537, 70000), (1 << 20, 1 << 20)]
    if not ctx.thorough:
        sizes = [(0, 0), (1, 1), (65536, 65537), (1 << 20, 300000)]
    for n, m in sizes:
        run_case(ctx, [sys.executable, w, str(n), str(m), "0", "3"], 30, "ABNORMAL", 3, blob(n, 1), blob(m, 2), label=f"output:{n}+{m}")
    # finishing just before / sleeping past the limit, with output produced before the timeout
    run_case(ctx, [sys.executable, w, "5000", "7", "0.05", "0"], 5, "NORMAL", 0, blob(5000, 1), blob(7, 2), label="before-limit")
    run_case(ctx, [sys.executable, w, "70000", "11", "30", "0"], 1, "TIMEOUT", None, blob(70000, 1), blob(11, 2), label="past-limit")
    # one stream (or both) silent when the limit expires: the capture is the empty byte string, not "nothing"
    run_case(ctx, [sys.executable, w, "300", "0", "30", "0"], 1, "TIMEOUT", None, blob(300, 1), b"", label="past-limit:stdout-only")
    run_case(ctx, [sys.executable, w, "0", "9", "30", "0"], 1, "TIMEOUT", None, b"", blob(9, 2), label="past-limit:stderr-only")
    # a limit of 0 seconds is a limit: a child that is still running is timed out at once
    run_case(ctx, [sh, "-c", "sleep 3; exit 5"], 0, "TIMEOUT", None, b"", b"", label="limit-zero")
    if ctx.thorough:
        run_case(ctx, [sh, "-c", "sleep 30"], 1, "TIMEOUT", None, b"", b"", label="past-limit:silent")
        run_case(ctx, [sh, "-c", "sleep 0.3; exit 77"], 2, "CRASH", 77, b"", b"", label="before-limit:77")
    # classification over the whole integer domain of the model vs the documented rule (model-side only check of the chain)
    for rc in list(range(-70, 300)) + [2**31 - 1, 2**31, 2**31 + 1, 2**32, -2**31]:
        want = "NORMAL" if rc == 0 else ("CRASH" if (rc < 0 or rc == 77 or rc >= 2**31) else "ABNORMAL")
        ctx.expect("classify-rule", f"classify 0 {rc}", f"{want} {rc} {1 if want == 'CRASH' else 0} 0", dict(rc=rc))
    return common.decide(ctx, proof, RULE,
                         assumptions=["pipes, kill(2), wait(2) are the OS; C18_capture is a theorem about an abstract child, tied to reality only by these runs",
                                      "timing margins: 'before the limit' children finish >= 10x earlier than the limit, 'past the limit' children sleep >= 10x longer"])


def replay(rec) -> int:
    print(rec["case"])
    return 0
