"""C17 — command line: test arguments are isolated; the test name resolves predictably.

The option tables of Lithium's two argparse parsers are regenerated from the live parser objects
on every run (lean/Generated/CmdlineTable.lean); correspondence: real `Lithium.process_args` vs the
model's `cmdline` on argv = pre x name x tail.  Monitor: the property's words (verbatim hand-off,
configuration decided by the options before the test name only, file choice, resolution order,
sys.path restored)."""
from __future__ import annotations

import os
import sys

from .. import cmdline_gen, common, loaders
from ..common import enc_list

RULE = ("argv = pre x name x tail: pre from Lithium's options in attached (--opt=value), two-token (--opt value), flag, abbreviated and clustered "
        "forms incl. invalid ones; name in {file in cwd with/without .py, ./path, built-in}; tail full of Lithium-looking options (-c -j "
        "--strategy=... --min 4 --testcase x --char -- -h and ambiguous prefixes); three ways of naming a test in real directories, with the "
        "test's directory already on sys.path or not; non-trivial = a tail containing >= 1 token that is a valid Lithium option; distinct by argv")

PRE_TOKENS = [
    ["-c"], ["--char"], ["-j"], ["--js"], ["-l"], ["-s"], ["--symbol"], ["-a"], ["--attrs"],
    ["--strategy=minimize-around"], ["--strategy", "minimize-balanced"], ["--strategy=check-only"], ["--strategy=minimize-collapse-brace"],
    ["--strategy=replace-properties-by-globals"], ["--strat=minimize-around"],
    ["--min=4"], ["--min", "2"], ["--max=8"], ["--max", "16"], ["--repeat=always"], ["--repeat", "never"], ["--max-run=9"], ["--chunk-size=2"],
    ["--chunk-size", "4"], ["--repeat-first-round"], ["--max-run-time=5"], ["--max-run-time", "7"], ["-v"], ["--verbose"], ["--verb"],
    ["--tempdir=tt"], ["--tempdir", "tt2"], ["--testcase=other.txt"], ["--testcase", "other.txt"], ["-cv"], ["-vc"],
    ["--min=3"], ["--strategy=bogus"], ["--bogus"], ["--max=x"], ["--min"], ["-c", "-l"], ["--cut-before=]"], ["--with-experimental-move"],
]
TAIL_TOKENS = ["-c", "-j", "--char", "--strategy=check-only", "--strategy", "minimize-around", "--min", "4", "--max=2", "--testcase", "x.txt",
               "--", "-h", "--help", "-v", "--tempdir=zz", "arg", "", "a b", "-5", "--repeat=never", "--chunk-size=3", "-x", "--unknown=1",
               "@args.rsp", "@missing.rsp", "+x", "/c", "@"]
AMBIGUOUS = ["--m", "--c", "--t", "--re", "--s"]
NAMES = ["c17t.py", "c17t", "./c17t.py", "crashes", "outputs"]


def setup_dir():
    d = loaders.scratch() / "c17"
    d.mkdir(exist_ok=True)
    (d / "c17t.py").write_text("ARGS = None\ndef interesting(a, p):\n    return True\n")
    (d / "tc.txt").write_bytes(b"a\nb\n")
    (d / "other.txt").write_bytes(b"c\nd\n")
    (d / "x.txt").write_bytes(b"e\n")
    (d / "args.rsp").write_text("-c\n--strategy=check-only\nother.txt\n")   # a response file of the TEST's tool, not Lithium's
    return d


def real_process(argv):
    from lithium.reducer import Lithium

    lith = Lithium()
    path_before = list(sys.path)
    import contextlib
    import io
    try:
        with contextlib.redirect_stderr(io.StringIO()), contextlib.redirect_stdout(io.StringIO()):
            lith.process_args(list(argv))
    except SystemExit as exc:
        return ("exit", exc.code if isinstance(exc.code, int) else 2), path_before, list(sys.path)
    except Exception as exc:  # pylint: disable=broad-except
        return ("raise", type(exc).__name__, str(exc)[:100]), path_before, list(sys.path)
    st = lith.strategy
    cfg = dict(atom=lith.testcase.atom, strategy=st.name)
    if st.name != "check-only":
        cfg.update(min=st.minimize_min, max=st.minimize_max, rep=st.minimize_repeat, rfr=bool(st.minimize_repeat_first_round),
                   mrt=st.stop_after_time)
    if st.name == "minimize-balanced":
        cfg["move"] = bool(st.use_experimental_move)
    cfg["tempdir"] = None if lith.temp_dir is None else str(lith.temp_dir)
    cfg["testcase"] = lith.testcase.filename
    cfg["cond"] = getattr(lith.condition_script, "__name__", "?")
    cfg["args"] = list(lith.condition_args)
    return ("ok", cfg), path_before, list(sys.path)


def enc_real(res, argv_name):
    if res[0] == "exit":
        return f"exit {res[1]}"
    if res[0] == "raise":
        return "raise " + res[1]
    c = res[1]
    s = f"ok atom={enc_list([c['atom'].encode()])} strategy={c['strategy']} "
    if c["strategy"] != "check-only":
        s += f"min={c['min']} max={c['max']} rep={c['rep']} rfr={'true' if c['rfr'] else 'false'} mrt={c['mrt']} "
    if c["strategy"] == "minimize-balanced":
        s += f"move={'true' if c['move'] else 'false'} "
    s += (f"tempdir={enc_list([str(c['tempdir']).encode()])} testcase={enc_list([c['testcase'].encode()])} "
          f"cond={enc_list([argv_name.encode()])} args={enc_list([a.encode() for a in c['args']])}")
    return s


def expected_from_pre(pre_groups):
    """the documented meaning of well-formed options before the test name; None = not covered here"""
    cfg = dict(atom="line", strategy="minimize", min=1, max=2**30, rep="last", rfr=False, mrt=None, move=False, testcase=None, tempdir=None)
    atoms = {"-c": "char", "--char": "char", "-j": "jsstr char", "--js": "jsstr char", "-l": "line", "--lines": "line",
             "-s": "symbol-delimiter", "--symbol": "symbol-delimiter", "-a": "attribute", "--attrs": "attribute"}
    for g in pre_groups:
        tok = g[0]
        if len(g) == 1 and tok in ("-cv", "-vc"):     # bundled short flags: --char and --verbose
            cfg["atom"] = "char"
            continue
        if "=" in tok and len(g) == 1:
            key, val = tok.split("=", 1)
        elif len(g) == 2:
            key, val = g
        else:
            key, val = tok, None
        if key in atoms and val is None:
            cfg["atom"] = atoms[key]
        elif key in ("--strategy", "--strat") and val in cmdline_gen.STRATEGIES:
            cfg["strategy"] = val
        elif key in ("--min", "--max") and val is not None and val.isdigit():
            cfg[key[2:]] = int(val)
        elif key == "--repeat" and val in ("always", "last", "never"):
            cfg["rep"] = val
        elif key == "--chunk-size" and val is not None and val.isdigit():
            cfg["chunk"] = int(val)
        elif key == "--repeat-first-round" and val is None:
            cfg["rfr"] = True
        elif key in ("--max-run-time", "--max-run") and val is not None and val.isdigit():
            cfg["mrt"] = int(val)
        elif key in ("-v", "--verbose", "--verb") and val is None:
            pass
        elif key == "--tempdir" and val:
            cfg["tempdir"] = val
        elif key == "--testcase" and val:
            cfg["testcase"] = val
        elif key == "--with-experimental-move" and val is None and cfg["strategy"] == "minimize-balanced":
            cfg["move"] = True
        else:
            return None
    if "chunk" in cfg:
        cfg["min"] = cfg["max"] = cfg.pop("chunk")
        cfg["rep"] = "never"
    used_atoms = {atoms[g[0]] for g in pre_groups if len(g) == 1 and g[0] in atoms} | \
        {"char" for g in pre_groups if len(g) == 1 and g[0] in ("-cv", "-vc")}
    if len(used_atoms) > 1:
        return None          # mutually exclusive group: refused by argparse
    family_opts = any(g[0].split("=")[0] in ("--min", "--max", "--repeat", "--chunk-size", "--repeat-first-round", "--max-run-time", "--max-run")
                      for g in pre_groups)
    if cfg["strategy"] == "check-only" and family_opts:
        return None          # options of the minimize family are not defined for check-only
    if cfg["move"] and cfg["strategy"] != "minimize-balanced":
        return None
    return cfg


def early_unknown_two_token(pre_groups):
    """the recorded finding: an option the early parser does not know, given with a separate value token (or clustered with an atom flag)"""
    early_known = {"-a", "--attrs", "-c", "--char", "-j", "--js", "-l", "--lines", "-s", "--symbol", "--strategy"}
    for i, g in enumerate(pre_groups):
        later = pre_groups[i + 1:]
        swallows = (len(g) == 2 and g[0] not in early_known) or (len(g) == 1 and g[0] in ("-cv", "-vc"))
        if swallows:
            return True
    return False


def early_visible(pre_groups):
    """what the recorded finding explains: the atom flag and strategy the early parser still sees, i.e. those given before the
    first option form it chokes on (a cluster -vc only loses its own flag)"""
    atoms = {"-c": "char", "--char": "char", "-j": "jsstr char", "--js": "jsstr char", "-l": "line", "--lines": "line",
             "-s": "symbol-delimiter", "--symbol": "symbol-delimiter", "-a": "attribute", "--attrs": "attribute"}
    early_known = set(atoms) | {"--strategy", "--strat"}
    atom, strategy = "line", "minimize"
    for g in pre_groups:
        if (len(g) == 2 and g[0] not in early_known) or g == ["-cv"]:
            break
        if len(g) == 1 and g[0] in atoms:
            atom = atoms[g[0]]
        elif g[0].startswith(("--strategy=", "--strat=")) and len(g) == 1:
            strategy = g[0].split("=", 1)[1]
        elif g[0] in ("--strategy", "--strat") and len(g) == 2:
            strategy = g[1]
    return atom, strategy


def one(ctx, pre_groups, name, tail, do_model=True):
    pre = [t for g in pre_groups for t in g]
    argv = pre + [name] + tail + ["tc.txt"]
    res, p0, p1 = real_process(argv)
    case = dict(argv=argv)
    if do_model:
        ctx.expect("cmdline", "cmdline " + enc_list([a.encode() for a in argv]), enc_real(res, name), case)
    else:
        ctx.evaluations += 1
    if p0 != p1:
        ctx.fail("sys-path", f"sys.path changed: {[x for x in p1 if x not in p0]} added, {[x for x in p0 if x not in p1]} removed, or reordered", case)
    exp = expected_from_pre(pre_groups)
    has_amb = any(t in AMBIGUOUS for t in tail)
    if exp is not None and exp["strategy"] != "check-only":
        mn, mx = exp["min"], exp["max"]
        if not (mn >= 1 and mn & (mn - 1) == 0 and mx >= 1 and mx & (mx - 1) == 0):
            exp = "refuse"
    if exp == "refuse":
        if res[0] != "exit":
            ctx.fail("not-refused", f"a non power of two was accepted: {argv}", case)
        return
    if exp is None:
        return
    ctx.bump("well-formed-pre")
    if res[0] != "ok":
        if has_amb:
            ctx.fail("tail-ambiguous-prefix", f"a test argument that is a prefix of several Lithium options makes Lithium exit: {argv} -> {res}", case)
        elif early_unknown_two_token(pre_groups):
            ctx.fail("early-parser-swallow", f"{argv} -> {res}: the early parser picked the wrong strategy/atom, whose parser then refuses the options", case)
        else:
            ctx.fail("valid-args-refused", f"{argv} -> {res}", case)
        return
    c = res[1]
    if c["args"] != tail + ["tc.txt"]:
        ctx.fail("args-not-verbatim", f"the test received {c['args']}, the command line had {tail + ['tc.txt']}", case)
    want_file = exp["testcase"] or "tc.txt"
    if c["testcase"] != want_file:
        ctx.fail("wrong-file", f"file reduced is {c['testcase']}, expected {want_file}", case)
    mism = []
    for k in ("atom", "strategy"):
        if c[k] != exp[k]:
            mism.append((k, c[k], exp[k]))
    if exp["strategy"] != "check-only" and c["strategy"] == exp["strategy"]:
        for k in ("min", "max", "rep", "rfr", "mrt"):
            if c[k] != exp[k]:
                mism.append((k, c[k], exp[k]))
    if (c["tempdir"] or None) != exp["tempdir"]:
        mism.append(("tempdir", c["tempdir"], exp["tempdir"]))
    if mism:
        key = "early-parser-swallow" if early_unknown_two_token(pre_groups) and \
            (c["atom"], c["strategy"]) == early_visible(pre_groups) else "config-mismatch"
        ctx.fail(key, f"{argv}: {mism} (got, documented)", case)
    if any(t in ("-c", "-j", "--char", "--strategy=check-only", "--min", "--testcase", "--max=2", "-h", "--help") for t in tail):
        ctx.nontriv(tuple(argv))
        ctx.sample(dict(argv=argv), limit=5)


def grid(ctx, n_random, do_model=True):
    rng = ctx.rng
    d = setup_dir()
    cwd = os.getcwd()
    os.chdir(d)
    try:
        # every single pre group x a few names x a fixed hostile tail
        hostile = ["-c", "--strategy=check-only", "--min", "4", "--testcase", "x.txt", "--char", "--", "-h"]
        for name in NAMES[:2]:
            for t in (["@args.rsp"], ["@missing.rsp", "-c"], ["+x", "/c", "@"]):
                one(ctx, [], name, t, do_model)
                one(ctx, [["-c"]], name, t, do_model)
        for g in [[]] + [[x] for x in PRE_TOKENS]:
            for name in NAMES[:3]:
                one(ctx, g, name, hostile, do_model)
                one(ctx, g, name, [], do_model)
        # pairs of pre groups (order matters for the early parser)
        for g1 in PRE_TOKENS[:36:3]:
            for g2 in PRE_TOKENS[:36]:
                one(ctx, [g1, g2], "c17t.py", ["-j", "--strategy", "minimize-around"], do_model)
        for _ in range(n_random):
            k = rng.choice([0, 1, 2, 3, 4])
            pre = [rng.choice(PRE_TOKENS[:36]) for _ in range(k)]
            tail = [rng.choice(TAIL_TOKENS) for _ in range(rng.choice([0, 1, 2, 4, 7]))]
            if rng.random() < 0.05:
                tail.insert(rng.randrange(len(tail) + 1), rng.choice(AMBIGUOUS))
            one(ctx, pre, rng.choice(NAMES), tail, do_model)
    finally:
        os.chdir(cwd)


def known_finding_cases(ctx):
    d = setup_dir()
    cwd = os.getcwd()
    os.chdir(d)
    try:
        one(ctx, [["--min", "2"], ["--strategy=minimize-around"], ["-c"]], "c17t.py", [], True)
        one(ctx, [], "c17t.py", ["--m", "x"], True)
    finally:
        os.chdir(cwd)


def resolution(ctx):
    """path given -> that file only; else cwd; else built-in; unknown -> error; sys.path as before"""
    from lithium.interestingness.utils import rel_or_abs_import

    base = loaders.scratch() / "c17-res"
    import shutil
    if base.exists():
        shutil.rmtree(base)
    (base / "cwd").mkdir(parents=True)
    (base / "elsewhere").mkdir()
    marker = lambda w: f"WHERE = {w!r}\ndef interesting(a, p):\n    return True\n"
    (base / "cwd" / "c17res_a.py").write_text(marker("cwd"))
    (base / "elsewhere" / "c17res_a.py").write_text(marker("elsewhere"))
    (base / "elsewhere" / "c17res_b.py").write_text(marker("elsewhere-b"))
    (base / "cwd" / "crashes.py").write_text(marker("cwd-crashes"))
    (base / "elsewhere" / "c17res_b.sh").write_text("#!/bin/sh\n")
    # a module of that name in the current directory may just as well be a package
    (base / "cwd" / "c17res_pkg").mkdir()
    (base / "cwd" / "c17res_pkg" / "__init__.py").write_text(marker("cwd-package"))
    (base / "cwd" / "timed_run").mkdir()
    (base / "cwd" / "timed_run" / "__init__.py").write_text(marker("cwd-package-timed-run"))
    cwd = os.getcwd()
    os.chdir(base / "cwd")
    cases = [
        ("c17res_a", "cwd"), ("c17res_a.py", "cwd"), (str(base / "elsewhere" / "c17res_b.py"), "elsewhere-b"),
        ("../elsewhere/c17res_b.py", "elsewhere-b"), ("crashes", "cwd-crashes"), ("hangs", "builtin"), ("outputs.py", "builtin"),
        ("c17res_nope", "error"), (str(base / "elsewhere" / "c17res_nope.py"), "error"), (str(base / "nodir" / "hangs.py"), "error"),
        # only a trailing `.py` is dropped from a name: other extensions are part of it, and no such module exists
        ("c17res_pkg", "cwd-package"), ("timed_run", "cwd-package-timed-run"),
        ("hangs.txt", "error"), ("c17res_a.cfg", "error"), (str(base / "elsewhere" / "c17res_b.sh"), "error"), ("outputs.pyc", "error"),
    ]
    try:
        for extra_path in (None, str(base / "elsewhere"), str(base / "cwd")):
            for arg, want in cases:
                for m in [k for k in sys.modules if k.startswith("c17res_") or k in ("crashes", "timed_run")]:
                    del sys.modules[m]
                saved = list(sys.path)
                if extra_path:
                    sys.path.insert(1, extra_path)
                before = list(sys.path)
                try:
                    mod = rel_or_abs_import(arg)
                    got = getattr(mod, "WHERE", "builtin" if mod.__name__.startswith("lithium.interestingness") else mod.__name__)
                except ImportError:
                    got = "error"
                after = list(sys.path)
                sys.path[:] = saved
                ctx.evaluations += 1
                case = dict(test_name=arg, dir_on_sys_path=extra_path)
                if after != before:
                    ctx.fail("sys-path", f"rel_or_abs_import({arg!r}) left sys.path changed: before {before[:3]}..., after {after[:3]}...", case)
                if got != want:
                    # a stem that is importable from an earlier sys.path entry wins over the given path: recorded finding
                    key = "stem-already-importable" if extra_path and want != "error" else "resolution-order"
                    ctx.fail(key, f"{arg!r} resolved to {got!r}, expected {want!r} (sys.path had {extra_path})", case)
                ctx.bump("resolution")
                ctx.nontriv("resolution", arg, extra_path)
        # a test script that itself changes sys.path while it is imported (a common idiom: helpers next to the test): when
        # Lithium is done, sys.path is what it was before PLUS the script's own change — Lithium's temporary entry is gone and
        # the script's entry is not
        (base / "helpers").mkdir()
        for how, line in (("front", "sys.path.insert(0, HELP)"), ("back", "sys.path.append(HELP)"), ("second", "sys.path.insert(1, HELP)")):
            (base / "cwd" / f"c17res_p{how}.py").write_text(
                f"import sys\nHELP = {str(base / 'helpers')!r}\n{line}\nWHERE = 'path-{how}'\ndef interesting(a, p):\n    return True\n")
            for arg in (f"c17res_p{how}", str(base / "cwd" / f"c17res_p{how}.py")):
                for m in [k for k in sys.modules if k.startswith("c17res_")]:
                    del sys.modules[m]
                saved = list(sys.path)
                before = list(sys.path)
                try:
                    rel_or_abs_import(arg)
                except ImportError as exc:
                    ctx.fail("resolution-order", f"{arg!r} did not import: {exc}", dict(test_name=arg))
                after = list(sys.path)
                sys.path[:] = saved
                ctx.evaluations += 1
                helper = str(base / "helpers")
                want = {"front": [helper] + before, "back": before + [helper], "second": before[:1] + [helper] + before[1:]}[how]
                if after != want:
                    ctx.fail("sys-path", f"rel_or_abs_import({arg!r}), a test that does `{line}` while imported: sys.path afterwards starts "
                             f"{after[:3]} and ends {after[-2:]}; expected the path as before plus the test's own entry ({how})",
                             dict(test_name=arg, script_changes_sys_path=how))
                ctx.bump("resolution-path-changing-test")
    finally:
        os.chdir(cwd)
        for m in [k for k in sys.modules if k.startswith("c17res_") or k in ("crashes", "timed_run")]:
            del sys.modules[m]


def literal_names(ctx):
    """'the file reduced is the last argument unless --testcase names another': the name is taken as it stands — a name that a
    shell would have expanded (~, $VAR, a glob) is a file of exactly that name (whole runs, files compared afterwards)"""
    import contextlib
    import io
    import shutil
    from lithium.reducer import Lithium

    base = loaders.scratch() / "c17-lit"
    if base.exists():
        shutil.rmtree(base)
    (base / "cwd").mkdir(parents=True)
    (base / "home").mkdir()
    (base / "cwd" / "c17lit_t.py").write_text("import os\ndef interesting(a, p):\n    return b'keep' in open(os.environ['C17_TARGET'], 'rb').read()\n")
    (base / "cwd" / "my tests").mkdir()
    (base / "cwd" / "my tests" / "c17lit_t.py").write_text((base / "cwd" / "c17lit_t.py").read_text())
    names = ["~/t.txt", "$HOME/t.txt", "${C17VAR}.txt", "*.txt", "%HOME%.txt", "~c17user/t.txt", "a b.txt", "'q'.txt"]
    cwd = os.getcwd()
    old_env = {k: os.environ.get(k) for k in ("HOME", "C17VAR", "C17_TARGET")}
    os.environ["HOME"], os.environ["C17VAR"] = str(base / "home"), "t"
    os.chdir(base / "cwd")
    try:
        for name in names:
            for via in ("last", "--testcase", "spaced-test-path"):
                decoys = [base / "home" / "t.txt", base / "cwd" / "t.txt", base / "cwd" / "other.txt"]
                for p in decoys:
                    p.write_bytes(b"decoy\nkeep\n")
                target = base / "cwd" / name
                target.parent.mkdir(parents=True, exist_ok=True)
                target.write_bytes(b"drop\nkeep\n")
                sys.modules.pop("c17lit_t", None)
                os.environ["C17_TARGET"] = str(target)
                argv = ["c17lit_t.py", name] if via == "last" else ["--testcase=" + name, "c17lit_t.py", "other.txt"]
                if via == "spaced-test-path":      # the test is the file at the given path, also when the path has a blank in it
                    argv = ["my tests/c17lit_t.py", "-x", "two words", name]
                case = dict(argv=argv, literal_name=name)
                ctx.evaluations += 1
                ctx.bump("literal-names")
                try:
                    with contextlib.redirect_stdout(io.StringIO()), contextlib.redirect_stderr(io.StringIO()):
                        Lithium().main(argv)
                except (Exception, SystemExit) as exc:  # pylint: disable=broad-except
                    ctx.fail("wrong-file", f"main({argv}) with a file of exactly that name present raised {type(exc).__name__}: {exc}", case)
                    continue
                changed = [str(p.relative_to(base)) for p in decoys if p.read_bytes() != b"decoy\nkeep\n"]
                if target.read_bytes() != b"keep\n" or changed:
                    ctx.fail("wrong-file", f"main({argv}): the file named {name!r} holds {target.read_bytes()!r} (expected b'keep\\n'); "
                             f"other files changed: {changed}", case)
                ctx.nontriv("literal", name, via)
                for t in [x for x in (base / "cwd").glob("tmp*")]:
                    shutil.rmtree(t, ignore_errors=True)
    finally:
        os.chdir(cwd)
        for k, v in old_env.items():
            if v is None:
                os.environ.pop(k, None)
            else:
                os.environ[k] = v
        sys.modules.pop("c17lit_t", None)


def search(ctx):
    resolution(ctx)
    literal_names(ctx)
    grid(ctx, 3000, do_model=False)


def run(ctx) -> int:
    early, mains, index, distinct, changed = cmdline_gen.generate()
    if changed:
        ctx.notes.append("Generated/CmdlineTable.lean was rewritten from the live parsers")
    proof = common.proof_stage(ctx.pid)
    known_finding_cases(ctx)
    grid(ctx, 6000 if ctx.thorough else 900)
    resolution(ctx)
    literal_names(ctx)
    return common.decide(ctx, proof, RULE, search=search,
                         extra=dict(generated_tables=dict(early_options=len(early["opts"]), main_tables=len(distinct))),
                         assumptions=["the port of argparse 3.12 `_parse_known_args` is a model of a library, validated only by this correspondence",
                                      "module resolution is Python's import system; modelled abstractly, checked on real directories"])


def replay(rec) -> int:
    print(rec["case"])
    return 0
