"""C10 — monotone tests: exact core in O(m log n) tests.

Correspondence: real minimize (in memory) vs the model on (n, core) cases.
Monitor: final file == core and tests (incl. the initial check) <= (2m+1)*ceil(log2 n) + 5m + 8."""
from __future__ import annotations

import itertools

from .. import common, loaders, strat
from ..common import enc_list

RULE = ("minimize with default options under the test 'interesting iff all atoms of the core are present': every core subset for n <= N0 "
        "(line atoms), clustered / spread / random / prefix / suffix cores for n up to N1 (powers of two, one-off values, odd sizes), "
        "line, char and symbol atoms; non-trivial = a run whose test count is >= 50% of the bound or n >= 64; distinct by (n, core, atom kind)")


def clog2(n):
    return 0 if n <= 1 else (n - 1).bit_length()


def bound(n, m):
    return (2 * m + 1) * clog2(n) + 5 * m + 8


def atoms(kind, n):
    if kind == "line":
        return [b"%d\n" % i for i in range(n)]
    if kind == "symbol":
        return [b"s%d;" % i for i in range(n)]
    # char: n distinct single bytes are only possible for n <= 256; use 2-byte "chars" from a line testcase otherwise
    return [bytes([i % 256]) if n <= 256 else b"%c%c" % (i // 256, i % 256) for i in range(n)]


def one(ctx, kind, n, core, do_model=True, parts=None):
    parts = parts or atoms(kind, n)
    f = (b"", parts, [True] * n, b"")
    tc = strat.testcase_from_fields(kind if kind != "char" or n <= 256 else "line", f)
    need = [parts[i] for i in sorted(core)]
    coreset = set(core)
    index = {p: i for i, p in enumerate(parts)}
    calls = []

    def dec(k, c):
        return None  # replaced below

    # the oracle looks at the candidate's atoms (contents are concatenations of distinct atoms, so this is a function of the bytes)
    import lithium.strategies as S  # noqa

    st = strat.make_strategy("minimize", {})
    it = st.reduce(tc)
    verdicts = []
    for attempt in it:
        present = {index[p] for p in attempt.parts}
        v = coreset <= present
        verdicts.append(v)
        it.feedback(v)
    best = it.testcase
    m = len(core)
    tests = len(verdicts) + 1
    case = dict(kind=kind, n=n, core=sorted(core)[:40], m=m)
    b = bound(n, m)
    if [p for p in best.parts] != need:
        ctx.fail("not-the-core", f"n={n} core={sorted(core)[:20]}: final atoms {[index[p] for p in best.parts][:30]}", case)
    if tests > b:
        ctx.fail("too-many-tests", f"n={n} m={m}: {tests} tests > bound {b}", case)
    if do_model and n <= 512:
        run = strat.Run()
        run.best = strat.fields(best)
        run.verdicts = verdicts
        # compare final best and the number of tests only (the proposal log of big runs is large)
        ctx.expect("minimize-summary", "summary " + strat.model_line("minimize", {}, f, verdicts)[len("strategy "):],
                   f"best={enc_list(best.parts)} n={len(verdicts)}", case)
    else:
        ctx.evaluations += 1
    r = tests / b
    ctx.hist["max-ratio-x1000"] = max(ctx.hist.get("max-ratio-x1000", 0), int(1000 * r))
    ctx.bump(f"n<={1 << max(n - 1, 0).bit_length()}")
    if n >= 64 or 2 * tests >= b:
        ctx.nontriv(kind, n, tuple(sorted(core)))
        ctx.sample(dict(kind=kind, n=n, m=m, tests=tests, bound=b), limit=6)


def small(ctx, N0, do_model=True):
    for n in range(1, N0 + 1):
        for m in range(0, n + 1):
            for core in itertools.combinations(range(n), m):
                one(ctx, "line", n, core, do_model)


def big(ctx, sizes, per, do_model=True):
    rng = ctx.rng
    for n in sizes:
        for kind in ("line", "char", "symbol"):
            cores = [(), (0,), (n - 1,), tuple(range(n)), tuple(range(0, n, max(1, n // 7))), tuple(range(n // 2, min(n, n // 2 + 5))),
                     tuple(range(min(3, n))), tuple(range(max(0, n - 3), n))]
            for _ in range(per):
                m = rng.choice([1, 2, 3, 5, 8, max(1, n // 10)])
                cores.append(tuple(sorted(rng.sample(range(n), min(m, n)))))
                start = rng.randrange(n)
                cores.append(tuple(range(start, min(n, start + m))))
            for core in cores:
                one(ctx, kind, n, core, do_model)


def collision_case(ctx, do_model=True):
    """two distinct atoms whose contents get the same de-duplication key (found by observing the real key function)"""
    col = strat.find_key_collision()
    ctx.bump("dedupe-key-collision-found" if col else "dedupe-key-collision-none")
    if col:
        a, b = col
        for parts, core in (([a, b], (0,)), ([a, b], (1,)), ([b, a], (0,)), ([b"x\n", a, b], (1,)), ([b"x\n", a, b], (2,))):
            one(ctx, "line", len(parts), core, do_model, parts=parts)


def reused_strategy(ctx):
    """ONE strategy object used for several reductions one after the other (a follow-up pass, a tool that keeps its
    strategy): every one of them returns its own core exactly"""
    for n, cores in ((16, [(3, 12), (3,), (12,), ()]), (9, [(0, 8), (8,), (0, 4, 8), (4,)]), (5, [(0, 1, 2, 3, 4), (2,)])):
        parts = atoms("line", n)
        f = (b"", parts, [True] * n, b"")
        st = strat.make_strategy("minimize", {})
        index = {p: i for i, p in enumerate(parts)}
        for r, core in enumerate(cores):
            tc = strat.testcase_from_fields("line", f)
            it = st.reduce(tc)
            coreset, tests = set(core), 1
            for attempt in it:
                tests += 1
                it.feedback(coreset <= {index[p] for p in attempt.parts})
            got = [index[p] for p in it.testcase.parts]
            ctx.evaluations += 1
            ctx.bump("reused-strategy")
            case = dict(kind="line", n=n, core=list(core), m=len(core), reduction_number=r + 1, reused_strategy_object=True)
            if got != sorted(core):
                ctx.fail("not-the-core", f"reduction #{r + 1} with one strategy object, n={n} core={list(core)}: final atoms {got}", case)
            if tests > bound(n, len(core)):
                ctx.fail("too-many-tests", f"reduction #{r + 1} with one strategy object, n={n} m={len(core)}: {tests} tests > bound", case)
    # a small file first, then a much larger one, with the same strategy object: the options are those of a fresh strategy both times
    st = strat.make_strategy("minimize", {})
    for n, core in ((3, (1,)), (256, (7, 200)), (5, (0, 4)), (1024, (512,))):
        parts = atoms("line", n)
        index = {p: i for i, p in enumerate(parts)}
        tc = strat.testcase_from_fields("line", (b"", parts, [True] * n, b""))
        it = st.reduce(tc)
        coreset, tests = set(core), 1
        for attempt in it:
            tests += 1
            it.feedback(coreset <= {index[p] for p in attempt.parts})
        got = [index[p] for p in it.testcase.parts]
        ctx.evaluations += 1
        ctx.bump("reused-strategy")
        case = dict(kind="line", n=n, core=list(core), m=len(core), reused_strategy_object=True, after_other_sizes=True)
        if got != sorted(core):
            ctx.fail("not-the-core", f"one strategy object, files of different sizes, n={n} core={list(core)}: final atoms {got[:20]}", case)
        if tests > bound(n, len(core)):
            ctx.fail("too-many-tests", f"one strategy object, files of different sizes, n={n} m={len(core)}: {tests} tests > bound {bound(n, len(core))}", case)


def on_disk(ctx, N, do_model=True):
    """the same claim through the real driver: `Lithium.run()` on a file, judged by the file left on disk and the
    number of times the test was called (m = n, m = 0 and everything between)"""
    from .. import scripts
    for n in range(1, N + 1):
        parts = atoms("line", n)
        data = b"".join(parts)
        for m in range(0, n + 1):
            cores = list(itertools.combinations(range(n), m))
            for core in (cores if n <= 4 else [cores[0], cores[-1], cores[len(cores) // 2]]):
                need = [parts[i] for i in core]

                def dec(k, disk, need=need):
                    lines = set(disk.splitlines(keepends=True))
                    return "a" if all(p in lines for p in need) else "r"

                o, f, run = scripts.play_real("minimize", {}, "line", data, dec)
                case = dict(kind="line", n=n, core=list(core), m=m, on_disk=True)
                ctx.evaluations += 1
                ctx.bump("on-disk")
                if o.exit != "r0" and not (o.exit == "r1" and m == n):
                    ctx.fail("not-the-core", f"on disk, n={n} core={list(core)}: run() ended with {o.exit} {o.exc}", case)
                if o.disk != b"".join(need):
                    ctx.fail("not-the-core", f"on disk, n={n} core={list(core)}: the file holds {o.disk!r} after run(), the core is {b''.join(need)!r}", case)
                if len(o.calls) > bound(n, m):
                    ctx.fail("too-many-tests", f"on disk, n={n} m={m}: {len(o.calls)} tests > bound {bound(n, m)}", case)


def interleaved_jobs(ctx):
    """two reductions driven side by side through the iterate/feedback API (both iterators exist before either runs): the
    one with default options returns its core exactly, within the bound, whatever options the other strategy object has"""
    for other in (dict(min=8, max=8, rep="never"), dict(max=2), dict(rep="never")):
        for order in ("a-first", "b-first"):
            n, core = 64, (5, 33, 60)
            parts = atoms("line", n)
            index = {p: i for i, p in enumerate(parts)}
            sa, sb = strat.make_strategy("minimize", {}), strat.make_strategy("minimize", other)
            tca = strat.testcase_from_fields("line", (b"", parts, [True] * n, b""))
            tcb = strat.testcase_from_fields("line", (b"", parts[:16], [True] * 16, b""))
            if order == "a-first":
                ita = sa.reduce(tca)
                itb = sb.reduce(tcb)
            else:
                itb = sb.reduce(tcb)
                ita = sa.reduce(tca)
            ga, gb = iter(ita), iter(itb)
            tests, done_a, done_b = 1, False, False
            while not (done_a and done_b):
                if not done_a:
                    try:
                        att = next(ga)
                        tests += 1
                        ita.feedback(set(core) <= {index[p] for p in att.parts})
                    except StopIteration:
                        done_a = True
                if not done_b:
                    try:
                        next(gb)
                        itb.feedback(False)
                    except StopIteration:
                        done_b = True
            got = [index[p] for p in ita.testcase.parts]
            case = dict(kind="line", n=n, core=list(core), m=len(core), interleaved_with=other, order=order)
            ctx.evaluations += 1
            ctx.bump("interleaved-jobs")
            if got != sorted(core):
                ctx.fail("not-the-core", f"default minimize driven side by side with a minimize configured {other} ({order}): final atoms {got[:20]}, "
                         f"core {list(core)}", case)
            if tests > bound(n, len(core)):
                ctx.fail("too-many-tests", f"default minimize side by side with {other}: {tests} tests > bound {bound(n, len(core))}", case)


def command_line_runs(ctx):
    """the property speaks of DEFAULT OPTIONS: the same claim through `Lithium.main(argv)` with no option given (what the
    argument parser fills in is what counts), on files that the real loaders split — including a symbol file whose last
    statement has no delimiter behind it"""
    import contextlib
    import io
    import os
    from lithium.reducer import Lithium

    d = loaders.scratch() / "c10-cli"
    d.mkdir(exist_ok=True)
    (d / "c10_core_test.py").write_text(
        "import os\nCOUNT = [0]\ndef interesting(args, prefix):\n    COUNT[0] += 1\n    data = open(args[-1], 'rb').read()\n"
        "    ok = all(t in data for t in os.environ['C10_CORE'].encode('latin1').split(b'|') if t)\n"
        "    return (1 if COUNT[0] % 2 else True) if ok else (None if COUNT[0] % 2 else 0)   # truthy / falsy, not strict bools\n")
    cwd = os.getcwd()
    os.chdir(d)
    try:
        cases = [("--lines", b"".join(b"line%03d\n" % i for i in range(300)), [b"line007\n", b"line150\n"]),
                 ("--lines", b"".join(b"line%03d\n" % i for i in range(300)), []),
                 ("--symbol", b"".join(b"s%03d;" % i for i in range(96)) + b"tail_without_delimiter", [b"tail_without_delimiter"]),
                 ("--symbol", b"".join(b"s%03d;" % i for i in range(96)) + b"tail_without_delimiter", [b"s010;", b"tail_without_delimiter"]),
                 ("--char", bytes(range(48, 48 + 70)), [b"A"]),
                 # a marked region whose last line ends in CR LF: only the LF is pinned, the CR is an atom like any other
                 ("--char", b"h\r\n// DDBEGIN\r\nabc37xyz\r\n// DDEND\r\nt\r\n", [b"37"], 9, b"h\r\n// DDBEGIN\r\n37\n// DDEND\r\nt\r\n"),
                 # every line boundary the loader knows (form feed, U+2028, NEL, FS) separates atoms
                 ("--lines", b"p1\x0cs1;\n/* page 2 */\x0cstmt2;\nx\xe2\x80\xa8y\nq\xc2\x85r\x1cz\n", [b"stmt2;\n", b"y\n", b"z\n"], 9, None)]
        # symbol atoms with the user's own delimiters
        toks = b"".join(b"tok%04d," % i for i in range(200))
        cases.append(("--symbol --cut-before= --cut-after=,", toks, [b"tok0007,", b"tok0100,", b"tok0199,"], 200, None))
        for flag, data, core, *more in cases:
            tc = d / "tc.txt"
            tc.write_bytes(data)
            os.environ["C10_CORE"] = b"|".join(core).decode("latin1")
            import sys
            sys.modules.pop("c10_core_test", None)
            lith = Lithium()
            case = dict(cli=True, argv=[flag], n_bytes=len(data), core=[c.decode("latin1") for c in core])
            try:
                with contextlib.redirect_stdout(io.StringIO()), contextlib.redirect_stderr(io.StringIO()):
                    lith.main(flag.split(" ") + ["c10_core_test.py", str(tc)])
            except (Exception, SystemExit) as exc:  # pylint: disable=broad-except
                ctx.fail("cli-raises", f"main([{flag}, ...]) raised {type(exc).__name__}: {exc}", case)
                continue
            finally:
                os.environ.pop("C10_CORE", None)
            ctx.evaluations += 1
            ctx.bump("command-line-runs")
            n = {"--lines": data.count(b"\n"), "--char": len(data)}.get(flag, data.count(b";") + 1)
            want = b"".join(core)
            if more:
                n = more[0]
                want = more[1] or want
            tests = lith.test_count
            if tc.read_bytes() != want:
                ctx.fail("not-the-core", f"main([{flag}, ...]) on {n} atoms, core {core}: the file holds {tc.read_bytes()[:60]!r}", case)
            if tests > bound(n, len(core)):
                ctx.fail("too-many-tests", f"main([{flag}, ...]) with default options on {n} atoms, m={len(core)}: {tests} tests > bound {bound(n, len(core))}", case)
    finally:
        os.chdir(cwd)


def second_pass(ctx):
    """ONE Lithium object is run a second time (the 'please perform another pass' advice) on the file the first pass left:
    the second pass is a reduction of THAT file — m atoms, all of them core — so it returns it unchanged within the bound
    for n = m"""
    from .. import driver, scripts
    for kind, n, core in (("line", 1024, (700,)), ("line", 300, (5, 150, 299)), ("char", 70, (33,)), ("line", 64, ())):
        parts = atoms(kind, n)
        data = b"".join(parts)
        need = [parts[i] for i in core]
        s = driver.Session(None, kind=kind, from_file=data)
        try:
            def dec(k, disk, need=need, kind=kind):
                have = set(disk.splitlines(keepends=True)) if kind == "line" else set(bytes([b]) for b in disk)
                return "a" if all(p in have for p in need) else "r"
            s.test.decider = dec
            o1 = s.run(scripts.make_real_strategy("minimize", {}), "r")
            n1 = len(o1.calls)
            o2 = s.run(scripts.make_real_strategy("minimize", {}), "r")
            tests2 = len(o2.calls) - n1
            m = len(core)
            case = dict(kind=kind, n=n, core=list(core), m=m, on_disk=True, second_pass_same_object=True)
            ctx.evaluations += 1
            ctx.bump("second-pass")
            if o1.disk != b"".join(need) or o2.disk != b"".join(need):
                ctx.fail("not-the-core", f"two passes with one Lithium object, n={n} core={list(core)}: the file holds {o2.disk[:60]!r} after the second", case)
            if tests2 > bound(m, m):
                ctx.fail("too-many-tests", f"second pass with the same Lithium object on the {m}-atom result of the first: {tests2} tests > bound {bound(m, m)}", case)
        finally:
            s.close()


def scripts_as_testcases(ctx):
    """the testcase is itself a script: an executable file whose first line is an interpreter line.  Every line is an atom like
    any other (the `#!` line goes when it is not in the core), and a test that RUNS the file (needs the x bit) must keep
    working on every candidate Lithium writes"""
    import os
    from .. import driver, scripts
    firsts = [b"#!/bin/sh\n", b"#!/usr/bin/env python3\n", b"\xef\xbb\xbf#!x\n", b"#! /bin/sh -e\n"]
    for first in firsts:
        for core in ((), (3,), (0, 5), (7,)):
            parts = [first] + [b"echo %d\n" % i for i in range(1, 8)]
            data = b"".join(parts)
            need = [parts[i] for i in core]
            for needs_x in (False, True):
                s = driver.Session(None, kind="line", from_file=data)
                try:
                    if needs_x:
                        os.chmod(s.path, 0o755)

                    def dec(k, disk, need=need, needs_x=needs_x, path=s.path):
                        if needs_x and not os.access(path, os.X_OK):
                            return "r"      # the test runs the file: without the x bit nothing is interesting
                        have = set(disk.splitlines(keepends=True))
                        return "a" if all(p in have for p in need) else "r"
                    s.test.decider = dec
                    o = s.run(scripts.make_real_strategy("minimize", {}), "r")
                    case = dict(kind="line", n=len(parts), core=list(core), m=len(core), on_disk=True, first_line=first.decode("latin1"),
                                executable=needs_x)
                    ctx.evaluations += 1
                    ctx.bump("script-testcases")
                    if o.disk != b"".join(need):
                        ctx.fail("not-the-core", f"a script as testcase (first line {first!r}, {'executable, the test runs it' if needs_x else 'plain'}), "
                                 f"core={list(core)}: the file holds {o.disk!r} after run(), the core is {b''.join(need)!r}", case)
                    if len(o.calls) > bound(len(parts), len(core)):
                        ctx.fail("too-many-tests", f"a script as testcase, n={len(parts)} m={len(core)}: {len(o.calls)} tests > bound", case)
                finally:
                    s.close()


def search(ctx):
    reused_strategy(ctx)
    collision_case(ctx, do_model=False)
    on_disk(ctx, 6, do_model=False)
    small(ctx, 9, do_model=False)
    big(ctx, [16, 31, 32, 33, 63, 64, 65, 100, 127, 128, 129, 255, 256, 257, 511, 512, 513, 768, 1000, 1023, 1024, 1025, 2047, 2048, 2049, 3000],
        3, do_model=False)


def run(ctx) -> int:
    proof = common.proof_stage(ctx.pid)
    N0 = 10 if ctx.thorough else 8
    collision_case(ctx)
    reused_strategy(ctx)
    second_pass(ctx)
    command_line_runs(ctx)
    interleaved_jobs(ctx)
    scripts_as_testcases(ctx)
    on_disk(ctx, 7 if ctx.thorough else 5)
    small(ctx, N0)
    ctx.exhaustive.append(f"every (n, core) with n <= {N0}")
    sizes = [12, 16, 17, 31, 32, 33, 64, 65, 100, 127, 128, 129, 255, 256, 257, 500, 512, 513, 768, 1000, 1024, 1025]
    if ctx.thorough:
        sizes += [1536, 2047, 2048, 2049, 3000, 4095, 4096]
    big(ctx, sizes, 4 if ctx.thorough else 2)
    return common.decide(ctx, proof, RULE, search=search)


def replay(rec) -> int:
    c = rec["case"]
    ctx = common.Ctx("C10", "quick", 0)
    one(ctx, c["kind"], c["n"], tuple(c["core"]))
    ctx.flush()
    print(ctx.failures, ctx.disagreements)
    return 1 if ctx.failures or ctx.disagreements else 0
