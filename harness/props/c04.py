"""C04 — chunk-removal strategies only ever delete reducible atoms.

Correspondence: real minimize / minimize-around / minimize-balanced (in memory) vs the model,
proposal by proposal.  Monitor: every proposal (tested or de-duplicated) and the final best equal
the original with zero or more reducible atoms deleted, checked on the atom lists and on the bytes."""
from __future__ import annotations

import itertools

from .. import common, loaders, strat
from ..common import enc_bools, enc_list

RULE = ("minimize, minimize-around, minimize-balanced x option grid x every reducible/non-reducible layout up to length 6 (distinct atoms and "
        "repeated atoms) under random verdicts, plus the five real loaders on bracket/tag/string bearing files; non-trivial = a layout with both "
        "flag values and a run with >= 1 accepted candidate; distinct by (strategy, options, layout, verdicts)")

STRATS = ["minimize", "minimize-around", "minimize-balanced"]
CFGS = [dict(), dict(rep="always"), dict(rep="never"), dict(min=2, max=2, rep="never"), dict(min=2, max=8), dict(repeat_first=True, rep="always")]
# ordinary non-ASCII text (accents, typographic quotes, a euro sign) before, on and after the marker lines
MULTIBYTE_MARKED = b"caf\xc3\xa9 \xe2\x80\x9cq\xe2\x80\x9d\n// DDBEGIN \xc3\xa9\na;\nb\xc3\xa9;\nc\n// DDEND \xe2\x82\xac\n\xc3\xa9t\xc3\xa9\n"
FILES = {
    "line": [b"a\n{\nb\n}\n(\nc\n)\nd\n", b"h\nDDBEGIN\n{\na\n}\nb\nDDEND\nt\n", b"a\r\n{\rb\r\n}\n\x0bc\r", MULTIBYTE_MARKED],
    "char": [b"a{b}(c)d", b"h\nDDBEGIN\n{ab}c\nDDEND\nt", b"a\r\nb\rc", b"h\r\n// DDBEGIN\r\n(ab)c\r\n// DDEND\r\nt\r\n",
             b"// DDBEGIN\rab\r// DDEND\r", MULTIBYTE_MARKED],
    "symbol": [b"f(a){b;c};g[1]=2;\n", b"h\n// DDBEGIN\nf(a);g\nb;c\n// DDEND\nt\n", b"// DDBEGIN\r\na;b\rc;d\r\n// DDEND", MULTIBYTE_MARKED],
    "jsstr": [b"x = 'a{b}c' + \"(d)\\x41\";\ny = 'zz';\n",
              # two never-closed quote characters (an apostrophe in a comment, a quote inside a regex literal) around closed strings
              b"// it's here\nx = 'ab';\nif (/\"/.test(x)) y = \"cd\";\n", b"a = \"p\" + 'q'; // don't\nb = /[\"]/;\nc = 'rs';\n"],
    "attrs": [b"<a b=\"{\" c='}' d=e f><g h='(' i=\")\">text</g>\n", b"<p q=r s>t<u v='w' x=\"y\nz <k l=m"],
}


def is_deletion(orig, cand):
    """cand = orig with some reducible atoms deleted (zipped subsequence keeping every non-reducible entry)"""
    if cand[0] != orig[0] or cand[3] != orig[3] or len(cand[1]) != len(cand[2]):
        return False
    oz = list(zip(orig[1], orig[2]))
    cz = list(zip(cand[1], cand[2]))
    if [x for x in oz if not x[1]] != [x for x in cz if not x[1]]:
        return False
    # greedy subsequence match is complete for subsequence testing
    i = 0
    for x in cz:
        while i < len(oz) and oz[i] != x:
            if not oz[i][1]:
                return False  # would skip a non-reducible entry
            i += 1
        if i == len(oz):
            return False
        i += 1
    return all(x[1] for x in oz[i:])


def one(ctx, name, cfg, kind, f, decider, do_model=True):
    tc = strat.testcase_from_fields(kind, f)
    if len(tc) == 0:
        return
    run = strat.run_real(name, cfg, tc, decider, max_tests=5000)
    case = dict(strategy=name, cfg=cfg, splitter=kind, before=common.enc_bytes(f[0]), parts=enc_list(f[1]), reducible=enc_bools(f[2]),
                after=common.enc_bytes(f[3]), verdicts="".join("1" if v else "0" for v in run.verdicts[:120]))
    if do_model and name in strat.MODELLED:
        ctx.expect(name, strat.model_line(name, cfg, f, run.verdicts), run.encode(), case)
    else:
        ctx.evaluations += 1
    if run.error:
        ctx.fail("internal-error", f"{name}: {run.error}", case)
    if run.dump_diff:
        k, shown, want = run.dump_diff
        ctx.fail("not-a-deletion", f"{name}: test {k} was shown {shown!r}, but the candidate's prefix + atoms + suffix are {want!r}: "
                 "bytes were added or altered on the way to the file", case)
    for a in run.atts:
        if not is_deletion(f, a["cand"]):
            ctx.fail("not-a-deletion", f"{name}: proposal {a['desc']!r} is parts={a['cand'][1]!r} flags={enc_bools(a['cand'][2])} "
                     f"before={a['cand'][0]!r} after={a['cand'][3]!r}; original parts={f[1]!r} flags={enc_bools(f[2])}", case)
            break
    if not is_deletion(f, run.best):
        ctx.fail("not-a-deletion", f"{name}: final best parts={run.best[1]!r} flags={enc_bools(run.best[2])} is not a deletion of the original", case)
    ctx.bump("runs:" + name)
    if any(f[2]) and not all(f[2]) and any(run.verdicts):
        ctx.nontriv(name, repr(sorted(cfg.items())), kind, case["parts"], case["reducible"], case["verdicts"])
        ctx.sample(dict(strategy=name, cfg=cfg, reducible=case["reducible"], tests=len(run.verdicts)), limit=5)


def sweep(ctx, L, per, do_model=True):
    rng = ctx.rng
    for name in STRATS:
        for n in range(1, L + 1):
            for layout in itertools.product((True, False), repeat=n):
                for cfg in CFGS:
                    for j in range(per):
                        dup = j % 2 == 1
                        parts = [(b"{\n", b"}\n", b"a\n", b"(\n", b")\n", b"b\n")[i % 6] if not dup else (b"{\n", b"}\n", b"a\n")[i % 3] for i in range(n)]
                        p = rng.choice([0.2, 0.5, 0.9])
                        seq = [rng.random() < p for _ in range(251)]
                        one(ctx, name, cfg, "line", (b"<", parts, list(layout), b">"), lambda k, c, seq=seq: seq[k % 251], do_model)


def loaders_stream(ctx, count, do_model=True):
    rng = ctx.rng
    for name in STRATS:
        for kind, datas in FILES.items():
            for data in datas:
                # the object has loaded another file (with markers, strings, tags) before: nothing of it may survive
                res = loaders.real_load(kind, data, preload=b"x = 'old';\n// DDBEGIN\n<a old=1>'o'\n// DDEND\ny = \"old\";\n")
                f = strat.fields(res[1])
                if strat.content(f) != data:
                    ctx.fail("original-altered", f"{kind}: the loaded testcase writes {strat.content(f)!r} for the file {data!r}, so every "
                             "candidate differs from the original in bytes that are not deleted atoms", dict(splitter=kind, data=common.enc_bytes(data)))
                if b"DDBEGIN" in data and kind in ("line", "char", "symbol"):
                    from . import c05
                    head, region, tail = c05.frame(data)
                    want_after = (region[-1:] + tail) if (kind == "char" and region) else tail
                    if f[0] != head or f[3] != want_after:
                        ctx.fail("original-altered", f"{kind}: the reducible atoms of {data!r} are not the text between the marker lines: protected "
                                 f"prefix {f[0]!r}, suffix {f[3]!r}", dict(splitter=kind, data=common.enc_bytes(data)))
                for cfg in CFGS:
                    for _ in range(count):
                        p = rng.choice([0.1, 0.5, 0.9])
                        seq = [rng.random() < p for _ in range(251)]
                        one(ctx, name, cfg, kind, f, lambda k, c, seq=seq: seq[k % 251], do_model)


def special_cut_sets(ctx):
    """symbol atoms with delimiter sets that contain characters special to regular expressions (- ^ ] \\ and friends): the
    atoms still partition the file, so candidates are the original minus atoms"""
    specials = [(b"(", b"-;\n"), (b"^", b"]-"), (b"\\", b"-"), (b"-", b"^]"), (b"[", b"-]\\"), (b"", b"-")]
    datas = [b"a = f(1-2);\nb^c]d-e\\f;[g]\n", b"x-1;y-2;(z)\n", b"-^]\\-;-\n0123456789:./,+*)\n"]
    for cut in specials:
        for data in datas:
            res = loaders.real_load("symbol", data, cut)
            ctx.evaluations += 1
            ctx.bump("special-cut-sets")
            case = dict(splitter="symbol", data=common.enc_bytes(data), cut_before=common.enc_bytes(cut[0]), cut_after=common.enc_bytes(cut[1]))
            if res[0] != "ok":
                ctx.fail("original-altered", f"symbol with cut sets {cut}: load failed: {res[1]}", case)
                continue
            f = strat.fields(res[1])
            if strat.content(f) != data:
                ctx.fail("original-altered", f"symbol with cut-before={cut[0]!r} cut-after={cut[1]!r}: the loaded testcase writes {strat.content(f)!r} "
                         f"for the file {data!r}", case)


def interleaved_iterators(ctx):
    """two reductions alive at the same time (an embedding tool; a strategy object created while another iterator is still
    unconsumed): each iterator works with ITS strategy's options — in particular one configured without the experimental
    move never re-orders atoms, whatever the other one is configured with"""
    parts = [b"f(\n", b"x\n", b"y\n", b")\n", b"z\n"]
    fA = (b"", parts, [True] * len(parts), b"")
    fB = (b"", [b"{\n", b"a\n", b"}\n"], [True] * 3, b"")
    for name, cfgA, cfgB in (("minimize-balanced", {}, {"move": True}), ("minimize-balanced", {"move": True}, {}),
                             ("minimize", {"min": 2, "max": 2, "rep": "never"}, {}), ("minimize-around", {}, {"rep": "always"})):
        for order, accept in (("A-first", 0), ("B-first", 0), ("A-first", 3), ("B-first", 3)):
            stA, stB = strat.make_strategy(name, cfgA), strat.make_strategy(name, cfgB)
            tcA, tcB = strat.testcase_from_fields("line", fA), strat.testcase_from_fields("line", fB)
            if order == "A-first":
                itA = stA.reduce(tcA)
                itB = stB.reduce(tcB)
            else:
                itB = stB.reduce(tcB)
                itA = stA.reduce(tcA)
            case = dict(strategy=name, cfg=cfgA, other_cfg=cfgB, order=order, parts=enc_list(parts), interleaved=True)
            ctx.evaluations += 1
            ctx.bump("interleaved-iterators")
            try:
                k = 0
                for attempt in itA:
                    cand = strat.fields(attempt)
                    if not cfgA.get("move") and not is_deletion(fA, cand):
                        ctx.fail("not-a-deletion", f"{name} {cfgA} (another {name} {cfgB} iterator exists): candidate parts={cand[1]!r} is not the "
                                 f"original {parts!r} minus atoms", case)
                        break
                    sizes_ok = True
                    if name == "minimize" and cfgA.get("min") == 2 and len(fA[1]) - len(cand[1]) == 1 and len(cand[1]) > 2:
                        sizes_ok = False
                    if not sizes_ok:
                        ctx.fail("not-a-deletion", f"{name} {cfgA}: a single-atom candidate {cand[1]!r} although min=max=2 (the other iterator's options?)", case)
                        break
                    itA.feedback(bool(accept) and k % accept == accept - 1)
                    k += 1
                    if k > 400:
                        break
                for attempt in itB:
                    itB.feedback(False)
            except Exception as exc:  # pylint: disable=broad-except
                if not (cfgA.get("move") or cfgB.get("move")):
                    ctx.fail("internal-error", f"{name}: {type(exc).__name__}: {exc}", case)


def sparse_strings(ctx):
    """JS files with many EMPTY string literals between a few one-character ones, and a never-closed quote at the end (the
    splitter back-tracks): the string characters are far apart in the part list — every mask of 8 literals"""
    import itertools
    from . import c16
    for mask in itertools.product((False, True), repeat=8):
        data = b"".join(b'var v%d = "%s";\n' % (i, b"a" if m else b"") for i, m in enumerate(mask)) + b"// don't\n"
        res = loaders.real_load("jsstr", data)
        ctx.evaluations += 1
        ctx.bump("sparse-strings")
        case = dict(splitter="jsstr", data=common.enc_bytes(data))
        if res[0] != "ok":
            ctx.fail("original-altered", f"jsstr: load raised {res[1]} on {data!r}", case)
            return
        if strat.content(strat.fields(res[1])) != data:
            ctx.fail("original-altered", f"jsstr: the loaded testcase writes {strat.content(strat.fields(res[1]))!r} for the file {data!r}", case)
            return
        got, want = c16.reducible_spans(res[1]), c16.spec_js(data)
        if got != want:
            ctx.fail("wrong-atoms-reducible", f"jsstr: the loader flags the byte ranges {got} of {data!r} reducible; string characters are {want}", case)
            return


def load_only(ctx, n):
    """every candidate is built from the loaded testcase: if loading alters the bytes (a splitter that drops or doubles text
    when it back-tracks), every tested file differs from the original in bytes that are not atoms.  Grammar-directed JS and
    markup documents cut off at every position."""
    from . import c16
    for _ in range(n):
        for kind, doc in (("jsstr", c16.gen_js(ctx.rng)), ("attrs", c16.gen_doc(ctx.rng))):
            for k in range(1, len(doc) + 1):
                data = doc[:k]
                res = loaders.real_load(kind, data)
                ctx.evaluations += 1
                if res[0] == "ok" and strat.content(strat.fields(res[1])) != data:
                    ctx.fail("original-altered", f"{kind}: the loaded testcase writes {strat.content(strat.fields(res[1]))!r} for the file {data!r}",
                             dict(splitter=kind, data=common.enc_bytes(data)))
                    return
                # "every non-reducible part stays in place" starts with WHICH parts are reducible: string characters only
                if res[0] == "ok" and kind == "jsstr" and b"DDBEGIN" not in data and b"DDEND" not in data:
                    got, want = c16.reducible_spans(res[1]), c16.spec_js(data)
                    if got != want:
                        ctx.fail("wrong-atoms-reducible", f"jsstr: the loader flags the byte ranges {got} of {data!r} reducible; string characters are "
                                 f"{want} — candidates would delete text outside strings", dict(splitter=kind, data=common.enc_bytes(data)))
                        return


def torn_writes(ctx):
    """an interrupt (Ctrl-C) arrives while the candidate is half written: once `run()` has returned control the file is
    again the original with reducible atoms deleted (never the torn candidate), for the three strategies"""
    from lithium import testcases as T

    from .. import driver, scripts
    data = b"// prefix\n// DDBEGIN\nl1\n{\nl2\n}\nl3\n(\nl4\n)\n// DDEND\n// suffix\n"
    real_dump = T.Testcase.dump
    for name in STRATS:
        for nth in (1, 2, 3, 5):
            for verdicts in ("aaaaaaaaaaaa", "arararararar", "arrrrrrrrrrr"):
                s = driver.Session(None, kind="line", from_file=data)
                count = [0]

                def dump(self, path=None, s=s, count=count, nth=nth):
                    target = str(path) if path is not None else self.filename
                    if str(target) == str(s.path):
                        count[0] += 1
                        if count[0] == nth:
                            whole = self.before + b"".join(self.parts) + self.after
                            with open(target, "wb") as fh:
                                fh.write(whole[: max(1, len(whole) // 2)])
                            raise KeyboardInterrupt()
                    return real_dump(self, path)

                T.Testcase.dump = dump
                try:
                    s.test.decider = lambda k, disk, v=verdicts: "a" if v[k % len(v)] == "a" else "r"
                    o = s.run(scripts.make_real_strategy(name, {}), "a")
                finally:
                    T.Testcase.dump = real_dump
                    s.close()
                ctx.evaluations += 1
                ctx.bump("torn-write")
                case = dict(strategy=name, interrupted_write=nth, verdicts=verdicts, stream="torn-write")
                res = loaders.real_load("line", o.disk)
                if res[0] != "ok" or not is_deletion(s.orig_fields, strat.fields(res[1])) and o.disk != data:
                    ctx.fail("not-a-deletion", f"{name}: Ctrl-C inside write #{nth} of the testcase file; after run() the file holds {o.disk!r}, "
                             "which is not the original with atoms deleted", case)


def after_other_strategies(ctx):
    """a process that has constructed (and used) the other strategy classes first — an embedding tool, a test runner — and then
    runs a completely fresh deletion-only strategy: class-level state the others leave behind (hook lists, option defaults)
    must not make the fresh one rewrite atoms"""
    import lithium.strategies as S
    parts = [b"{\n", b"}\n", b"a\n", b"{\n", b" \n", b"}\n", b"b\n"]
    f = (b"", parts, [True] * len(parts), b"")
    made = []
    for cls in vars(S).values():
        if isinstance(cls, type) and issubclass(cls, S.Strategy) and cls is not S.Strategy:
            try:
                made.append(cls())
            except Exception:  # noqa: BLE001 - abstract or needing arguments: not our concern here
                pass
    # and one of each rewriting kind has also run to completion before
    for other in ("minimize-collapse-brace", "replace-properties-by-globals"):
        tc0 = strat.testcase_from_fields("line", f)
        tc0.filename = str(loaders.scratch() / "c04-other.txt")
        it = strat.make_strategy(other, {}).reduce(tc0)
        for k, _a in enumerate(it):
            it.feedback(k % 2 == 0)
            if k > 200:
                break
    for name in STRATS:
        for cfg in ({}, {"rep": "always"}):
            for accept in (0, 1, 2, 3):
                tc1 = strat.testcase_from_fields("line", f)
                tc1.filename = str(loaders.scratch() / "c04-fresh.txt")
                it = strat.make_strategy(name, cfg).reduce(tc1)
                case = dict(strategy=name, cfg=cfg, parts=enc_list(parts), after_other_strategies=[type(x).__name__ for x in made])
                ctx.evaluations += 1
                ctx.bump("after-other-strategies")
                k = 0
                for attempt in common.guarded_iter(it, lambda exc: ctx.fail(
                        "internal-error", f"{name} {cfg}, run after the other strategy classes were constructed and used: {type(exc).__name__}: {exc}", case)):
                    cand = strat.fields(attempt)
                    if not is_deletion(f, cand):
                        ctx.fail("not-a-deletion", f"{name} {cfg}, run after the other strategy classes were constructed and used: candidate "
                                 f"parts={cand[1]!r} is not the original {parts!r} minus atoms", case)
                        break
                    it.feedback(bool(accept) and k % accept == accept - 1)
                    k += 1
                    if k > 400:
                        break
                else:
                    fin = strat.fields(it.testcase)
                    if not is_deletion(f, fin):
                        ctx.fail("not-a-deletion", f"{name} {cfg}, run after the other strategy classes were constructed and used: the final "
                                 f"testcase parts={fin[1]!r} is not the original {parts!r} minus atoms", case)
                ctx.nontriv("after-others", name, repr(cfg), accept)


def touching_test(ctx):
    """whole runs with a test whose tool rewrites the file it is given: what Lithium presents next is still exactly the
    candidate it built (the original minus atoms), written in full"""
    from .. import scripts
    from . import drv
    rng = ctx.rng
    for name, opts in drv.STRATS:
        if name not in STRATS:
            continue
        for kind, datas in drv.INPUTS.items():
            for data in datas[:3]:
                seq = [rng.random() < 0.5 for _ in range(400)]
                tseq = [rng.random() < 0.6 for _ in range(400)]
                shown = []

                def dec(k, disk, seq=seq, shown=shown):
                    shown.append(disk)
                    return "a" if k == 0 or seq[k % len(seq)] else "r"

                o, f0, _run = scripts.play_real(name, opts, kind, data, dec, touch=lambda k, tseq=tseq: tseq[k % 400], touch_head=True)
                case = dict(strategy=name, opts={k: str(v) for k, v in opts.items()}, splitter=kind, data=common.enc_bytes(data), touching_test=True)
                ctx.evaluations += 1
                ctx.bump("touching-test")
                for k, ((cand, wrote), disk) in enumerate(zip(o.tested, shown)):
                    if k and wrote and disk != strat.content(cand):
                        ctx.fail("not-a-deletion", f"{name}/{kind}, the tool under test rewrites its input in place: test {k} was shown {disk!r}, the "
                                 f"candidate is {strat.content(cand)!r}", case)
                        break
                    if k and not is_deletion(f0, cand) and not opts.get("use_experimental_move"):
                        ctx.fail("not-a-deletion", f"{name}/{kind}: candidate {cand[1]!r} is not the original minus atoms", case)
                        break
                if len(shown) > 2:
                    ctx.nontriv("touching", name, repr(sorted(opts.items())), kind, data)


def search(ctx):
    after_other_strategies(ctx)
    torn_writes(ctx)
    load_only(ctx, 1500 if ctx.thorough else 150)
    interleaved_iterators(ctx)
    special_cut_sets(ctx)
    sweep(ctx, 7, 2, do_model=False)
    loaders_stream(ctx, 6, do_model=False)


def run(ctx) -> int:
    proof = common.proof_stage(ctx.pid)
    L = 7 if ctx.thorough else 6
    sweep(ctx, L, 2)
    ctx.exhaustive.append(f"every reducible/non-reducible layout up to length {L} x 3 strategies x {len(CFGS)} option settings (random verdicts)")
    loaders_stream(ctx, 12 if ctx.thorough else 8)
    torn_writes(ctx)
    load_only(ctx, 1500 if ctx.thorough else 150)
    sparse_strings(ctx)
    interleaved_iterators(ctx)
    special_cut_sets(ctx)
    after_other_strategies(ctx)
    touching_test(ctx)
    return common.decide(ctx, proof, RULE, search=search)


def replay(rec) -> int:
    print(rec["case"])
    return 0
