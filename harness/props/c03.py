"""C03 — minimize ends with a 1-minimal file.

Correspondence: real `Minimize.reduce` (in memory) vs the model under deterministic oracles.
Monitor: the final file and the verdict table of the scripted deterministic test: every
single-atom deletion of the final file must be in the table as rejected; follow-up run with
--chunk-size=1 on the re-loaded result accepts nothing (known finding when re-splitting the
result merges atoms)."""
from __future__ import annotations

import hashlib

from .. import common, loaders, scripts, strat
from ..common import enc_bools, enc_bytes, enc_list

RULE = ("minimize with min=1, repeat in {last, always}, max in {2^30, 1, 2, 4}, repeat-first on/off: every deterministic test (= every verdict "
        "sequence, since no content is tested twice) for n <= 3/4 atoms incl. duplicates and non-reducible parts; hash/parity/threshold/"
        "pattern/bracket-balance oracle families for n up to 40 on the five real loaders; non-trivial = an oracle that is not monotone on the "
        "visited contents and a result different from both the input and the empty file; distinct by (input, options, verdict table)")

CFGS = [dict(), dict(rep="always"), dict(max=1), dict(max=2, rep="always"), dict(max=4, repeat_first=True)]


def spec_rm(f, i):
    """delete the i-th reducible atom"""
    out_p, out_r, rank = [], [], 0
    for p, r in zip(f[1], f[2]):
        if r and rank == i:
            rank += 1
            continue
        if r:
            rank += 1
        out_p.append(p)
        out_r.append(r)
    return (f[0], out_p, out_r, f[3])


def check_minimal(ctx, f0, run, table, case, total_fn=None):
    best = run.best
    n = sum(1 for r in best[2] if r)
    for i in range(n):
        c = strat.content(spec_rm(best, i))
        if c in table:
            if table[c]:
                ctx.fail("not-1-minimal", f"deleting atom {i} of the final file gives {c!r}, which the test accepted", case)
                return False
        elif total_fn is not None:
            if total_fn(c):
                ctx.fail("not-1-minimal", f"deleting atom {i} of the final file gives {c!r}, never tested and accepted by the test", case)
                return False
        else:
            ctx.fail("deletion-never-tested", f"deleting atom {i} of the final file gives {c!r}, which was never tested (nor the final file's "
                     "own acceptance implies its rejection)", case)
            return False
    return True


def one_seq(ctx, cfg, kind, f, prefix, do_model=True):
    """verdict sequence = a deterministic test (no content is ever tested twice)"""
    tc = strat.testcase_from_fields(kind, f)
    table = {}

    def dec(k, c):
        v = k < len(prefix) and prefix[k]
        if c in table and table[c] != v:
            table["__inconsistent__"] = True
        table[c] = v
        return v

    run = strat.run_real("minimize", cfg, tc, dec, max_tests=4000)
    case = dict(cfg=cfg, splitter=kind, parts=enc_list(f[1]), reducible=enc_bools(f[2]),
                verdicts="".join("1" if v else "0" for v in run.verdicts))
    if do_model:
        ctx.expect("minimize", strat.model_line("minimize", cfg, f, run.verdicts), run.encode(), case)
    else:
        ctx.evaluations += 1
    if run.error:
        ctx.fail("internal-error", run.error, case)
    if "__inconsistent__" in table:
        ctx.fail("content-tested-twice", "a content was presented to the test twice in one run", case)
        return run
    check_minimal(ctx, f, run, table, case)
    return run


def trees(ctx, nmax, limit, do_model=True):
    complete = True
    shapes = []
    for n in range(1, nmax + 1):
        shapes.append((b"", [bytes([97 + i]) + b"\n" for i in range(n)], [True] * n, b""))
        if n >= 2:
            shapes.append((b"", [b"a\n"] * n, [True] * n, b""))                     # all atoms equal
            shapes.append((b"h", [bytes([97 + i % 2]) + b"\n" for i in range(n)], [i != 1 for i in range(n)], b"t"))
    for f in shapes:
        for cfg in CFGS:
            def run_with(prefix):
                r = one_seq(ctx, cfg, "line", f, prefix, do_model)
                nt = len(r.verdicts)
                return nt
            cnt, done = scripts.verdict_tree(run_with, limit)
            ctx.bump("tree-leaves", cnt)
            complete = complete and done
    return complete


def families(rng):
    def h(c, salt):
        return hashlib.blake2b(c + salt, digest_size=2).digest()
    salt = bytes([rng.randrange(256) for _ in range(4)])
    thr = rng.randrange(20, 200)
    yield "hash", lambda c: h(c, salt)[0] < thr
    yield "parity", lambda c: len(c) % 2 == 0
    yield "contains-ab", lambda c: b"a" in c and (b"b" in c or len(c) < 6)
    yield "balanced", lambda c: c.count(b"{") == c.count(b"}") and c.count(b"(") == c.count(b")")
    yield "not-monotone", lambda c: (b"x" in c) != (b"y" in c) or h(c, salt)[1] < 60
    k = rng.randrange(2, 9)
    yield "len-mod", lambda c: len(c) % k in (0, 1)


FILES = {
    "line": [b"x\na\ny\nb\n{\n}\na\nb\n(\n)\n", b"p\nDDBEGIN\nx\ny\n{\na\n}\nx\nDDEND\nq\n", b"a\r\nb\rc\nx\x0by\n"],
    "char": [b"xa{y}b(ab)", b"p\nDDBEGIN\nxyab{}\nDDEND\n"],
    "symbol": [b"x;a{y}b;(ab);x=y;\n", b"a]b;c[d]e:f\n"],
    "jsstr": [b"s = 'xa\\u0041y' + \"b{}\\\\x\";\n", b"t='\\u12';u='34'\n"],
    "attrs": [b"<a x=\"1\" y='2' b c=d><e a=b>\n"],
}


def family_runs(ctx, reps, do_model=True):
    rng = ctx.rng
    for kind, datas in FILES.items():
        for data in datas:
            res = loaders.real_load(kind, data)
            f = strat.fields(res[1])
            for cfg in CFGS:
                for _ in range(reps):
                    for fname, fn in families(rng):
                        if not fn(data):
                            continue
                        tc = strat.testcase_from_fields(kind, f)
                        table = {}

                        def dec(k, c, fn=fn, table=table):
                            table[c] = fn(c)
                            return table[c]

                        run = strat.run_real("minimize", cfg, tc, dec, max_tests=20000)
                        case = dict(cfg=cfg, splitter=kind, data=enc_bytes(data), oracle=fname,
                                    verdicts="".join("1" if v else "0" for v in run.verdicts[:200]))
                        if do_model:
                            ctx.expect("minimize", strat.model_line("minimize", cfg, f, run.verdicts), run.encode(), case)
                        else:
                            ctx.evaluations += 1
                        if run.error:
                            ctx.fail("internal-error", run.error, case)
                            continue
                        ok = check_minimal(ctx, f, run, table, case, total_fn=fn)
                        final = strat.content(run.best)
                        ctx.bump("family:" + fname)
                        mono = all(not v or True for v in run.verdicts)
                        if final != data and any(run.best[2]) and any(run.verdicts) and not all(run.verdicts):
                            ctx.nontriv(kind, data, repr(sorted(cfg.items())), tuple(run.verdicts))
                            ctx.sample(dict(splitter=kind, oracle=fname, cfg=cfg, tests=len(run.verdicts), final=enc_bytes(final)), limit=5)
                        if ok:
                            follow_up(ctx, kind, final, run.best, fn, case)


def follow_up(ctx, kind, final_bytes, best_fields, fn, case):
    """a --chunk-size=1 run on the result accepts nothing and leaves the file unchanged"""
    res = loaders.real_load(kind, final_bytes)
    if res[0] != "ok":
        return
    f2 = strat.fields(res[1])
    same_split = [p for p, r in zip(f2[1], f2[2]) if r] == [p for p, r in zip(best_fields[1], best_fields[2]) if r]
    tc = strat.testcase_from_fields(kind, f2)
    if len(tc) == 0:
        return
    run = strat.run_real("minimize", dict(min=1, max=1, rep="never"), tc, lambda k, c: fn(c), max_tests=20000)
    ctx.bump("follow-up")
    if any(run.verdicts) or strat.content(run.best) != final_bytes:
        key = "followup-resplit" if not same_split else "followup-accepts"
        ctx.fail(key, f"follow-up --chunk-size=1 run on {final_bytes!r} accepted a candidate and ended with {strat.content(run.best)!r}"
                 + ("" if same_split else " (re-loading the result merged/split atoms differently)"), dict(case, followup=True))


def known_finding_cases(ctx):
    # symbol: `a]b;c` -> after deleting `]b;` the remaining atoms `a`,`c` re-load as one atom `ac`
    data = b"a]b;c"
    res = loaders.real_load("symbol", data)
    f = strat.fields(res[1])
    fn = lambda c: c in (b"a]b;c", b"ac", b"")
    tc = strat.testcase_from_fields("symbol", f)
    table = {}
    run = strat.run_real("minimize", {}, tc, lambda k, c: table.setdefault(c, fn(c)))
    if check_minimal(ctx, f, run, table, dict(known="symbol a]b;c"), total_fn=fn):
        follow_up(ctx, "symbol", strat.content(run.best), run.best, fn, dict(known="symbol a]b;c"))


def collision_case(ctx, do_model=True):
    """when the real de-duplication key collides for two different contents, a never-tested deletion is skipped"""
    col = strat.find_key_collision()
    ctx.bump("dedupe-key-collision-found" if col else "dedupe-key-collision-none")
    if not col:
        return
    a, b = col
    for parts in ([a, b], [b, a]):
        f = (b"", parts, [True, True], b"")
        keep = parts[1]
        fn = lambda c, keep=keep, whole=parts[0] + parts[1]: c in (whole, keep)
        for cfg in CFGS:
            tc = strat.testcase_from_fields("line", f)
            table = {}
            run = strat.run_real("minimize", cfg, tc, lambda k, c: table.setdefault(c, fn(c)), max_tests=100)
            case = dict(cfg=cfg, splitter="line", parts=enc_list(parts), note="two contents with the same de-duplication key",
                        verdicts="".join("1" if v else "0" for v in run.verdicts))
            if do_model:
                ctx.expect("minimize", strat.model_line("minimize", cfg, f, run.verdicts), run.encode(), case)
            check_minimal(ctx, f, run, table, case, total_fn=fn)


CLI_TESTS = {
    # keep is required; open is tolerated only together with close (removing open makes close removable)
    "open-close": "lambda d: b'keep\\n' in d and ((b'open\\n' in d) <= (b'close\\n' in d))",
    # an even number of x lines and at least one y
    "parity": "lambda d: d.count(b'x') % 2 == 0 and b'y' in d",
    # a needs b unless c is gone
    "chain": "lambda d: b'a\\n' in d and (b'b\\n' in d or b'c\\n' not in d)",
}
CLI_FILES = {"open-close": b"open\nkeep\nclose\n", "parity": b"x\ny\nx\nx\nz\nx\n", "chain": b"c\nb\na\nd\n",
             # ONE reducible atom, and the test also accepts the file without it
             "single": b"only\n", "single-marked": b"keep\n// DDBEGIN\ndrop\n// DDEND\n"}
CLI_TESTS["single"] = "lambda d: b'nothing' not in d"
CLI_TESTS["single-marked"] = "lambda d: b'keep' in d"
# character atoms whose deletion joins the neighbours into a marker word: still a candidate like any other
CLI_TESTS["joins-ddbegin"] = "lambda d: __import__('re').search(rb'DD.*BEGIN', d) is not None"
CLI_FILES["joins-ddbegin"] = b"f(DD, BEGIN);\n"
CLI_TESTS["joins-ddend"] = "lambda d: b'DD' in d and b'END' in d and d.index(b'DD') < d.index(b'END')"
CLI_FILES["joins-ddend"] = b"DD xEND y\n"
CLI_FLAGS = {"joins-ddbegin": ["--char"], "joins-ddend": ["--char"]}


def cli_runs(ctx):
    """the same claim through the command line: `Lithium.main(argv)` with the repeat modes the property allows and any --max
    (the option handling must not turn repeat off behind the user's back)"""
    import contextlib
    import io
    import os
    from lithium.reducer import Lithium

    d = loaders.scratch() / "c03-cli"
    d.mkdir(exist_ok=True)
    cwd = os.getcwd()
    os.chdir(d)
    try:
        for tname, src in CLI_TESTS.items():
            (d / f"c03_{tname.replace('-', '_')}.py").write_text(
                "FN = " + src + "\ndef interesting(args, prefix):\n    return bool(FN(open(args[0], 'rb').read()))\n")
            fn = eval(src)  # pylint: disable=eval-used
            for rep in ("last", "always"):
                for mx in (None, 1, 2, 4):
                    tc = d / "tc.txt"
                    tc.write_bytes(CLI_FILES[tname])
                    argv = CLI_FLAGS.get(tname, []) + [f"--repeat={rep}"] + ([f"--max={mx}"] if mx else []) + [f"c03_{tname.replace('-', '_')}.py", str(tc)]
                    case = dict(cli=True, argv=argv[:-1], test=tname, data=common.enc_bytes(CLI_FILES[tname]))
                    try:
                        with contextlib.redirect_stdout(io.StringIO()), contextlib.redirect_stderr(io.StringIO()):
                            rc = Lithium().main(argv)
                    except (Exception, SystemExit) as exc:  # pylint: disable=broad-except
                        ctx.fail("cli-raises", f"main({argv[:-1]}) raised {type(exc).__name__}: {exc}", case)
                        continue
                    ctx.evaluations += 1
                    ctx.bump("cli-runs")
                    final = tc.read_bytes()
                    lines = final.splitlines(keepends=True)
                    if "--char" in argv:
                        lines = [final[i:i + 1] for i in range(len(final))]
                    if tname == "single-marked":
                        lines = [l for l in lines if l == b"drop\n"]     # the region is the one line between the markers
                    if rc != 0 or not fn(final):
                        ctx.fail("cli-result", f"main({argv[:-1]}) returned {rc} and left {final!r}", case)
                        continue
                    for i in range(len(lines)):
                        less = b"".join(lines[:i] + lines[i + 1:]) if tname != "single-marked" else final.replace(b"drop\n", b"", 1)
                        if fn(less):
                            ctx.fail("not-1-minimal", f"main({argv[:-1]}) ended with {final!r}: deleting line {i} gives {less!r}, which the test accepts", case)
                            break
                    if len(lines) >= 1 and final != CLI_FILES[tname]:
                        ctx.nontriv("cli", tname, rep, mx)
                    # 'consequently a follow-up --chunk-size=1 run accepts nothing': a new run on the result, same test, same
                    # temp directory as a user would have it (tmpN next to the file): nothing accepted, the file as it was
                    if tname in ("joins-ddbegin", "joins-ddend", "single-marked"):
                        continue         # the result re-loads differently (marker words): recorded finding followup-resplit
                    argv2 = CLI_FLAGS.get(tname, []) + ["--chunk-size=1", f"c03_{tname.replace('-', '_')}.py", str(tc)]
                    try:
                        with contextlib.redirect_stdout(io.StringIO()), contextlib.redirect_stderr(io.StringIO()):
                            rc2 = Lithium().main(argv2)
                    except (Exception, SystemExit) as exc:  # pylint: disable=broad-except
                        ctx.fail("cli-raises", f"follow-up main({argv2[:-1]}) raised {type(exc).__name__}: {exc}", case)
                        continue
                    if tc.read_bytes() != final or (rc2 == 0 and lines):
                        ctx.fail("followup-changes", f"main({argv[:-1]}) ended with {final!r}; the follow-up --chunk-size=1 run returned {rc2} and left "
                                 f"{tc.read_bytes()!r}", dict(case, followup=True))
    finally:
        os.chdir(cwd)


def bundled_test_runs(ctx):
    """the same claim with one of the BUNDLED tests doing the judging (`outputs --search` around a deterministic checker
    program) and an explicit --tempdir that the follow-up run shares, as a user re-running the same command line would"""
    import contextlib
    import io
    import os
    import shutil
    import sys
    from lithium.reducer import Lithium

    d = loaders.scratch() / "c03-bundled"
    if d.exists():
        shutil.rmtree(d)
    d.mkdir()
    (d / "checker.py").write_text(
        "import sys\nd = open(sys.argv[1], 'rb').read()\n"
        "ok = d.find(b'A\\n') != -1 and d.find(b'A\\n') < d.find(b'B\\n') and d.count(b'x\\n') != 1\n"
        "print('FOUND' if ok else 'nothing')\n")
    fn = lambda d_: d_.find(b"A\n") != -1 and d_.find(b"A\n") < d_.find(b"B\n") and d_.count(b"x\n") != 1
    cwd = os.getcwd()
    os.chdir(d)
    try:
        for rep, extra in (("last", []), ("always", ["--max=2"])):
            tc = d / "tc.txt"
            data = b"x\nA\nx\nq\nB\nx\n"
            tc.write_bytes(data)
            td = d / f"td-{rep}"
            td.mkdir()
            base = ["--tempdir=" + str(td)]
            tail = ["outputs", "--search", "FOUND", sys.executable, str(d / "checker.py"), str(tc)]
            case = dict(cli=True, argv=base + [f"--repeat={rep}"] + extra + tail[:3], test="outputs around a checker", data=common.enc_bytes(data))
            try:
                with contextlib.redirect_stdout(io.StringIO()), contextlib.redirect_stderr(io.StringIO()):
                    rc = Lithium().main(base + [f"--repeat={rep}"] + extra + tail)
                    final = tc.read_bytes()
                    rc2 = Lithium().main(base + ["--chunk-size=1"] + tail)
            except (Exception, SystemExit) as exc:  # pylint: disable=broad-except
                ctx.fail("cli-raises", f"main with the bundled outputs test raised {type(exc).__name__}: {exc}", case)
                continue
            ctx.evaluations += 1
            ctx.bump("bundled-test-runs")
            lines = final.splitlines(keepends=True)
            if rc != 0 or not fn(final):
                ctx.fail("cli-result", f"main(... outputs ...) returned {rc} and left {final!r}", case)
                continue
            for i in range(len(lines)):
                less = b"".join(lines[:i] + lines[i + 1:])
                if fn(less):
                    ctx.fail("not-1-minimal", f"main(... outputs ...) ended with {final!r}: deleting line {i} gives {less!r}, which the checker accepts", case)
                    break
            if tc.read_bytes() != final or rc2 == 0:
                ctx.fail("followup-changes", f"main(... outputs ...) ended with {final!r}; the follow-up --chunk-size=1 run into the same --tempdir "
                         f"returned {rc2} and left {tc.read_bytes()!r}", dict(case, followup=True))
            ctx.nontriv("bundled", rep)
    finally:
        os.chdir(cwd)


def search(ctx):
    collision_case(ctx, do_model=False)
    trees(ctx, 4, 3000, do_model=False)
    family_runs(ctx, 6, do_model=False)


def run(ctx) -> int:
    proof = common.proof_stage(ctx.pid)
    known_finding_cases(ctx)
    collision_case(ctx)
    nmax = 7 if ctx.thorough else 6
    if trees(ctx, nmax, 400000 if ctx.thorough else 60000):
        ctx.exhaustive.append(f"every deterministic test (verdict tree) for n <= {nmax} atoms x 3 input shapes x {len(CFGS)} option settings")
    family_runs(ctx, 12 if ctx.thorough else 6)
    cli_runs(ctx)
    bundled_test_runs(ctx)
    return common.decide(ctx, proof, RULE, search=search,
                         assumptions=["the follow-up clause is proved only when re-splitting the result reproduces the remaining atoms (C03_followup_partial); "
                                      "otherwise it is a recorded finding"])


def replay(rec) -> int:
    print(rec["case"])
    return 0
