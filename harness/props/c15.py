"""C15 — line, char and symbol atoms follow their documented boundaries.

Correspondence: real split (line / char / symbol with default and custom delimiter sets, set both
programmatically and through the command line) vs the model.  Monitor: the property's words."""
from __future__ import annotations

import os

from .. import common, loaders
from ..common import enc_bytes

RULE = ("line: every string up to L over {a, LF, CR, VT, FS, C2, 85, E2, 80, A8, A9}; char: same strings; symbol: every string up to L "
        "over {a ; ] { } : = LF [ ? - ^ \\\\} with the default sets and with custom sets (regex-special bytes, empty, non-ASCII, "
        "overlapping), programmatically and via `--cut-before/--cut-after` on a real command line; non-trivial = >= 2 atoms and at "
        "least one delimiter/terminator inside; distinct by (mode, sets, bytes)")

TERMS = [b"\n", b"\r", b"\r\n", b"\x0b", b"\x0c", b"\x1c", b"\x1d", b"\x1e", b"\xc2\x85", b"\xe2\x80\xa8", b"\xe2\x80\xa9"]
LINE_ALPHA = [b"a", b"\n", b"\r", b"\x0b", b"\x1c", b"\xc2", b"\x85", b"\xe2", b"\x80", b"\xa8", b"\xa9"]
SYM_ALPHA = [b"a", b";", b"]", b"{", b"}", b":", b"=", b"\n", b"[", b"?", b"-", b"^", b"\\"]

CUSTOM_SETS = [
    (b"]}:", b"?=;{[\n"), (b"", b";"), (b"]", b""), (b"", b""), (b"^", b"-"), (b"-", b"^"), (b"\\", b"]"), (b"]", b"\\"),
    (b"^-", b"]\\"), (b"a", b";"), (b"[", b"]"), (b"{}", b";\n"), (b":", b"="), (b"?", b"^"), (b"-^]", b"\\[;"),
    (b"\xa7", b";"), (b";", b"\xc2"), (b"\xff", b"\x80"), (b";", b";"), (b"a;", b";]"),
]
# sets whose text looks like something else (an escape sequence, a regex alternation): the bytes given are the delimiters;
# neighbouring entries are mirror images of each other (the same bytes, the other role)
LOOKALIKE_SETS = [(b"", b"|"), (b"|", b""), (b"", b"\\n"), (b"\\n", b""), (b"\\t\\\\", b"\\x41"), (b";|", b"|n"), (b";", b"||n"), (b"\\", b"0")]
LOOKALIKE_ALPHA = [b"\\", b"n", b"\n", b"|", b";", b"a", b"x41", b"\t", b"0"]


def check_line(ctx, data, parts, case):
    if b"".join(parts) != data:
        ctx.fail("line-concat", f"line atoms {parts!r} do not concatenate to {data!r}", case)
        return
    for i, p in enumerate(parts):
        if i + 1 < len(parts) and not any(p.endswith(t) for t in TERMS):
            ctx.fail("line-unterminated", f"atom {p!r} (not the last) does not end with a line terminator", case)
        if b"\n" in p[:-1]:
            ctx.fail("line-lf-inside", f"line feed inside atom {p!r}", case)
        if i + 1 < len(parts) and p.endswith(b"\r") and parts[i + 1].startswith(b"\n"):
            ctx.fail("line-crlf-split", f"CR LF split between {p!r} and {parts[i + 1]!r}", case)


def check_symbol(ctx, data, parts, B, A, case):
    overlap = bool(set(B) & set(A))
    key = "symbol-overlapping-sets" if overlap else "symbol-boundary"
    if b"".join(parts) != data or any(len(p) == 0 for p in parts):
        ctx.fail(key if overlap else "symbol-concat", f"symbol atoms {parts!r} do not partition {data!r}", case)
        return
    cuts, pos = set(), 0
    for p in parts[:-1]:
        pos += len(p)
        cuts.add(pos)
    want = {p for p in range(1, len(data)) if data[p - 1] in A or data[p] in B}
    if cuts != want:
        ctx.fail(key, f"cut-before={B!r} cut-after={A!r} data={data!r}: atoms {parts!r}, boundaries {sorted(cuts)} expected {sorted(want)}", case)


def line_char_case(ctx, data, do_model=True):
    for kind in ("line", "char"):
        res = loaders.real_load(kind, data)
        case = dict(mode=kind, data=enc_bytes(data))
        if do_model:
            ctx.expect("load", loaders.load_cmd(kind, data), loaders.enc_load(res), case)
        else:
            ctx.evaluations += 1
        if res[0] != "ok":
            ctx.fail("raises", f"{kind}: load raised on marker-free data: {res[1]}", case)
            continue
        parts = res[1].parts
        if kind == "line":
            check_line(ctx, data, parts, case)
            if len(parts) >= 2:
                ctx.nontriv("line", data)
                ctx.bump("line:>=2 atoms")
                if b"\r\n" in data:
                    ctx.bump("line:has CRLF")
        else:
            if parts != [data[i:i + 1] for i in range(len(data))]:
                ctx.fail("char-atoms", f"char atoms {parts!r} are not the single bytes of {data!r}", case)
            if len(parts) >= 2:
                ctx.nontriv("char", data)


_reused = {}


def symbol_case(ctx, data, cut, do_model=True):
    res = loaders.real_load("symbol", data, cut)
    B, A = cut if cut else (b"]}:", b"?=;{[\n")
    case = dict(mode="symbol", data=enc_bytes(data), cut_before=enc_bytes(B), cut_after=enc_bytes(A))
    if do_model:
        ctx.expect("load", loaders.load_cmd("symbol", data, cut), loaders.enc_load(res), case)
    else:
        ctx.evaluations += 1
    if res[0] != "ok":
        ctx.fail("raises", f"symbol: load raised {res[1]}: {res[2]!r}", case)
        return
    check_symbol(ctx, data, res[1].parts, B, A, case)
    # one long-lived object that is given new delimiter sets between loads (a driver re-using its testcase): the sets in
    # force at the time of the load decide
    obj = _reused.get("symbol")
    if obj is None:
        obj = _reused["symbol"] = loaders.new_testcase("symbol")
    try:
        obj.set_cut_chars(B, A)
        rp = loaders.scratch() / "c15-reuse.txt"
        rp.write_bytes(data)
        obj.load(rp)
        if list(obj.parts) != list(res[1].parts):
            ctx.fail("symbol-reconfigured", f"an object re-configured to cut-before={B!r} cut-after={A!r} splits {data!r} into {obj.parts!r}, "
                     f"a fresh one into {res[1].parts!r}", dict(case, reused_object=True))
    except Exception as exc:  # pylint: disable=broad-except
        _reused["symbol"] = None
        ctx.fail("symbol-reconfigured", f"a re-configured object raised {type(exc).__name__}: {exc}", dict(case, reused_object=True))
    # the same for an object configured the way the command line does it: `handle_args` with the parsed options, every time
    # (also when they happen to be the default sets, after other sets were in force)
    import argparse
    obj2 = _reused.get("symbol-args")
    if obj2 is None:
        obj2 = _reused["symbol-args"] = loaders.new_testcase("symbol")
    try:
        obj2.handle_args(argparse.Namespace(cut_before=B, cut_after=A))
        rp = loaders.scratch() / "c15-reuse2.txt"
        rp.write_bytes(data)
        obj2.load(rp)
        if list(obj2.parts) != list(res[1].parts):
            ctx.fail("symbol-reconfigured", f"an object given cut-before={B!r} cut-after={A!r} through handle_args (after other sets) splits {data!r} "
                     f"into {obj2.parts!r}, a fresh one into {res[1].parts!r}", dict(case, reused_object="handle_args"))
    except Exception as exc:  # pylint: disable=broad-except
        _reused["symbol-args"] = None
        ctx.fail("symbol-reconfigured", f"handle_args on a re-used object raised {type(exc).__name__}: {exc}", dict(case, reused_object="handle_args"))
    if len(res[1].parts) >= 2:
        ctx.nontriv("symbol", B, A, data)
        ctx.bump("symbol:>=2 atoms")
        ctx.sample(dict(case, atoms=len(res[1].parts)), limit=4)


def marked_regions(ctx):
    """line/char atoms of the region BETWEEN marker lines, when multi-byte UTF-8 text (or invalid bytes) comes before or on the
    marker lines: the atoms are exactly the lines / bytes of the region (model correspondence + structural check)"""
    from . import c08
    heads = [b"", b"caf\xc3\xa9 \xe2\x82\xac\n", b"\xf0\x9f\x98\x80\xf0\x9f\x98\x80\r\n", b"\xff\xfe bad\n"]
    begins = [b"// DDBEGIN\n", b"// d\xc3\xa9but DDBEGIN \xe2\x9c\x93\r\n", b"DDBEGIN\r"]
    regions = [b"foo;\r\nbar;\r\n", b"a\xc3\xa9b\nc\n", b"x\n\ny\xe2\x80\xa8z\n", b"one line\n"]
    ends = [b"// DDEND\n", b"// \xc3\xa9nd DDEND\r\ntail \xe2\x82\xac\n", b"DDEND"]
    for h in heads:
        for b in begins:
            for r in regions:
                for e in ends:
                    data = h + b + r + e
                    sp = c08.spec(data)
                    for kind in ("line", "char"):
                        res = loaders.real_load(kind, data)
                        case = dict(mode=kind, data=enc_bytes(data), markers=True)
                        ctx.expect("load", loaders.load_cmd(kind, data), loaders.enc_load(res), case)
                        if res[0] != "ok" or sp[0] != "ok":
                            if res[0] != "ok":
                                ctx.fail("raises", f"{kind}: load raised {res[1]} on a well-formed marker file", case)
                            continue
                        region = sp[2]
                        t = res[1]
                        body = b"".join(t.parts)
                        if kind == "line":
                            if body != region:
                                ctx.fail("line-concat", f"line atoms {t.parts!r} of a marker file do not concatenate to its region {region!r}", case)
                            else:
                                check_line(ctx, region, t.parts, case)
                        else:
                            want = [region[i:i + 1] for i in range(len(region))]
                            if t.parts != want[:-1] and t.parts != want:
                                ctx.fail("char-atoms", f"char atoms {t.parts!r} are not the single bytes of the region {region!r}", case)
                        ctx.bump("marked-regions")
                        ctx.nontriv("marked", kind, data)


def big_files(ctx):
    """files larger than any plausible read buffer: a CR LF pair (and a multi-byte terminator) that straddles a 64 KiB, 128 KiB
    or 1 MiB offset still ends ONE line; structural check only (the atoms are not sent through the model)"""
    for mark in (1 << 16, 1 << 17, 1 << 20):
        for term, shift in ((b"\r\n", 1), (b"\xe2\x80\xa8", 1), (b"\xe2\x80\xa8", 2), (b"\xc2\x85", 1)):
            line = b"x" * 61 + term
            body = line * (mark // len(line) + 4)
            # pad the front so that the terminator of some line starts `shift` bytes before the mark
            k = (mark // len(line)) * len(line) - len(term)     # start of the terminator of the last full line before the mark
            pad = (mark - shift - k) % len(line)
            front = b"p" * (pad - 1) + b"\n" if pad else b""
            data = front + body
            if data[mark - shift: mark - shift + len(term)] != term:
                raise common.HarnessError("big_files: the terminator does not straddle the mark")
            res = loaders.real_load("line", data)
            ctx.evaluations += 1
            ctx.bump("big-files")
            case = dict(mode="line", size=len(data), terminator=enc_bytes(term), mark=mark)
            if res[0] != "ok":
                ctx.fail("raises", f"line: load of a {len(data)}-byte file raised {res[1]}", case)
                continue
            parts = res[1].parts
            if b"".join(parts) != data:
                ctx.fail("line-concat", f"line atoms of a {len(data)}-byte file do not concatenate to it", case)
                continue
            bad = [p for p in parts if not p.endswith(term) and p is not parts[-1] and p != front]
            if bad or any(p == term[-1:] or p == term[1:] for p in parts):
                ctx.fail("line-crlf-split" if term == b"\r\n" else "line-unterminated",
                         f"a {term!r} that straddles offset {mark} of a {len(data)}-byte file was split: atoms like {bad[0][-8:] if bad else term[1:]!r}", case)


def cli_cases(ctx, datas):
    """delimiter sets given on a real command line reach the splitter (process_args)"""
    from lithium.reducer import Lithium

    d = loaders.scratch() / "c15-cli"
    d.mkdir(exist_ok=True)
    (d / "c15_probe_test.py").write_text("def interesting(a, p):\n    return True\n")
    cwd = os.getcwd()
    os.chdir(d)
    try:
        for B, A in CUSTOM_SETS + LOOKALIKE_SETS:
            for data in datas + [b"a\\nb\nc|d\\x41e\tf;g\\\\h0i", b"|a||b\\|n\n"]:
                if b"DDBEGIN" in data or b"DDEND" in data:
                    continue
                f = d / "tc.txt"
                f.write_bytes(data)
                argv = ["--symbol", "--cut-before=" + os.fsdecode(B), "--cut-after=" + os.fsdecode(A),
                        "c15_probe_test.py", str(f)]
                case = dict(mode="symbol-cli", data=enc_bytes(data), cut_before=enc_bytes(B), cut_after=enc_bytes(A), argv=argv[:3])
                lith = Lithium()
                try:
                    lith.process_args(argv)
                    parts = list(lith.testcase.parts)
                    # the copy that strategies re-load (minimize-collapse-brace) must cut alike
                    cp = lith.testcase.copy()
                    cp.load(f)
                    parts2 = list(cp.parts)
                except (Exception, SystemExit) as exc:  # pylint: disable=broad-except
                    ctx.fail("cli-raises", f"process_args({argv[:3]}) raised {type(exc).__name__}: {exc}", case)
                    continue
                ctx.evaluations += 1
                ctx.bump("cli")
                check_symbol(ctx, data, parts, B, A, case)
                if parts2 != parts:
                    ctx.fail("cli-copy", f"copy().load() cuts {parts2!r}, the configured testcase {parts!r}", case)
                ctx.expect("load-cli", loaders.load_cmd("symbol", data, (B, A)),
                           "ok - " + common.enc_list(parts) + " " + common.enc_bools([True] * len(parts)) + " -", case)
                if len(parts) >= 2:
                    ctx.nontriv("cli", B, A, data)
    finally:
        os.chdir(cwd)


def through_strategies(ctx):
    """the atoms stay whole lines / single bytes / delimiter-bounded symbols while a strategy works on them — in
    particular after minimize-collapse-brace re-splits the collapsed text (custom --cut-before/--cut-after included)"""
    from .. import strat
    rng = ctx.rng
    datas = [b"keep,a|x,f{ \n },b|c{\t},d\n", b"a;b{  }c;d{\n}e;\n", b"x{\r\n}\r\ny{ }z\r\n"]
    cuts = [("symbol", None), ("symbol", (b"|", b",")), ("symbol", (b"", b";")), ("symbol", (b"{", b"}")), ("line", None), ("char", None)]
    for name in ("minimize", "minimize-collapse-brace", "minimize-balanced"):
        for data in datas:
            for kind, cut in cuts:
                res = loaders.real_load(kind, data, cut)
                if res[0] != "ok":
                    continue
                f = strat.fields(res[1])
                for p in (0.0, 0.3, 0.7):
                    seq = [rng.random() < p for _ in range(97)]
                    tc = strat.testcase_from_fields(kind, f, cut)
                    tc.filename = str(loaders.scratch() / "c15-collapse.txt")
                    # brace collapsing is the first thing accepted, deletions follow the random sequence
                    run = strat.run_real(name, {}, tc, lambda k, c, seq=seq: seq[k % 97] or (b"{ }" in c and k < 40), max_tests=3000)
                    ctx.evaluations += 1
                    ctx.bump("through:" + name)
                    case = dict(strategy=name, splitter=kind, data=common.enc_bytes(data), cut=None if cut is None else [c.hex() for c in cut],
                                verdicts="".join("1" if v else "0" for v in run.verdicts[:60]))
                    if run.error:
                        continue
                    for a in run.atts:
                        c = a["cand"]
                        region = b"".join(c[1])
                        if kind == "line":
                            check_line(ctx, region, c[1], case)
                        elif kind == "char":
                            if any(len(x) != 1 for x in c[1]):
                                ctx.fail("char-atoms", f"char atoms {c[1]!r}", case)
                        elif a["tag"] == 3 and all(c[2]):
                            # the testcase re-loaded after a brace collapse is a fresh split: its boundaries must follow the sets
                            B, A = cut if cut is not None else (b"]}:", b"?=;{[\n")
                            check_symbol(ctx, region, c[1], B, A, dict(case, resplit=True))
                            ctx.bump("resplit-checked")


def known_finding_cases(ctx):
    # recorded finding: overlapping delimiter sets (see known_findings.json / DESIGN.md §5.13)
    symbol_case(ctx, b";;b", (b";", b";"), do_model=True)


def search(ctx):
    for data in loaders.all_strings(LINE_ALPHA, 5):
        line_char_case(ctx, data, do_model=False)
    for data in loaders.all_strings(SYM_ALPHA, 3):
        for cut in [None] + CUSTOM_SETS:
            symbol_case(ctx, data, cut, do_model=False)
    for data in loaders.all_strings([b"a", b";", b"\xa7", b"\xc2", b"\xff", b"\x80", b"]"], 4):
        for cut in CUSTOM_SETS:
            symbol_case(ctx, data, cut, do_model=False)


def run(ctx) -> int:
    proof = common.proof_stage(ctx.pid)
    known_finding_cases(ctx)
    L = 5 if ctx.thorough else 4
    for data in loaders.all_strings(LINE_ALPHA, L):
        line_char_case(ctx, data)
    Ls = 5 if ctx.thorough else 4
    for data in loaders.all_strings(SYM_ALPHA, Ls):
        symbol_case(ctx, data, None)
    for data in loaders.all_strings(SYM_ALPHA, Ls - 1):
        for cut in CUSTOM_SETS:
            symbol_case(ctx, data, cut)
    for data in loaders.all_strings(LOOKALIKE_ALPHA, 3):
        for cut in LOOKALIKE_SETS:
            symbol_case(ctx, data, cut)
    ctx.exhaustive.append(f"line/char: all strings <= {L} over 11 bytes; symbol default sets: all strings <= {Ls} over 13 bytes; "
                          f"{len(CUSTOM_SETS)} custom sets: all strings <= {Ls - 1}")
    rng = ctx.rng
    for _ in range(40000 if ctx.thorough else 4000):
        n = rng.randint(5, 30)
        line_char_case(ctx, b"".join(rng.choice(LINE_ALPHA + [b"b", b"\r\n", b"\xe2\x80\xa8"]) for _ in range(n)))
        symbol_case(ctx, b"".join(rng.choice(SYM_ALPHA + [b"\xa7", b"\xc2", b"\xff"]) for _ in range(n)),
                    rng.choice([None] + CUSTOM_SETS))
    through_strategies(ctx)
    marked_regions(ctx)
    big_files(ctx)
    cli_cases(ctx, [b"a;b]c-d^e\\f[g", b";;a]]", b"a\xc2\xa7b;c\xff\x80", b"]a^-b\\;", b"{a:b}=c?d\n[e]"] +
              ([b"".join(rng.choice(SYM_ALPHA) for _ in range(12)) for _ in range(10)] if ctx.thorough else []))
    return common.decide(ctx, proof, RULE, search=search,
                         assumptions=["symbol boundaries are proved for disjoint delimiter sets (C15_symbol_boundaries); overlapping sets are a recorded finding"])


def replay(rec) -> int:
    ctx = common.Ctx("C15", "quick", 0)
    c = rec["case"]
    data = bytes.fromhex(c["data"]) if c["data"] != "-" else b""
    if c["mode"] in ("line", "char"):
        line_char_case(ctx, data)
    elif c["mode"] == "symbol":
        dec = lambda s: bytes.fromhex(s) if s != "-" else b""
        symbol_case(ctx, data, (dec(c["cut_before"]), dec(c["cut_after"])))
    else:
        print("command-line case; re-run ./check C15")
    ctx.flush()
    print("monitor failures:", ctx.failures)
    print("disagreements:", ctx.disagreements)
    return 1 if ctx.failures or ctx.disagreements else 0
