"""C09 — every strategy terminates within a bounded number of tests.

Correspondence: real strategies (in memory, `reduce()` + `feedback()`) vs the model, proposal by
proposal.  Monitor: the number of tests (plus the initial check) against the stated bounds and no
exception, under adversarial verdict scripts."""
from __future__ import annotations

import itertools

from .. import common, loaders, strat

RULE = ("removal strategies x (min,max,repeat,repeat-first) grid x atom counts 0..40 (with non-reducible parts, duplicates) under always-yes, "
        "always-no, alternating, 'accept only every k-th', random verdicts, and complete verdict trees for n <= 4; rewriting strategies on JS "
        "snippets; collapse-brace on a real file; non-trivial = a run whose test count is >= 25% of the bound's leading term n*n or n >= 32; "
        "distinct by (strategy, options, input, verdicts)")

REMOVAL = ["minimize", "minimize-around", "minimize-balanced", "minimize-collapse-brace"]
JS = [
    b"function foo(a,b) {\n  list = a + b;\n}\nfoo(2, 3)\n",
    b"function Foo() {\n  this.list = [];\n}\nFoo.prototype.push = function(a) {\n  this.list.push(a);\n}\nFoo.prototype.last = function() {\n  return this.list.pop();\n}\n",
    b"var x = (function (a, b) {\n return a.p + b.q.r;\n})(1, 2);\nf(x.y, x.y.z);\n",
    b"a.b.c = d.e;\nthis.a.b = this.c;\ng(h.i)\n",
    # definition and calls in ONE atom (minified / one-line scripts)
    b"function f(a){return a};f(1)\n",
    b"function g(x,y){return x+y};g(1,2);g(3,4)\nvar h = function(p){return p.q};h(o.r)\n",
    # a call whose argument list continues on the next line (no closing parenthesis in the atom of the name)
    b"function foo(a, b) {\n}\nfoo(first_argument_with_a_rather_long_name + another_long_operand_name * 1234567890,\n    2);\nbar(x\n",
]


HUNG = set()
# the inputs of the recorded finding replace-arguments-grows (known_findings.json): only these match it
KNOWN_GROWING = {b"function f(a){}\nf(function f(x){})\n", b"a; f(1); function f(a){}\n"}


def clog2(n):
    return 0 if n <= 1 else (n - 1).bit_length()


def bound_removal(n):
    return (n + 1) * (n + clog2(n) + 2) + 1


def brace_text(n, rng):
    toks = [b"{\n", b"}\n", b"a\n", b"\n", b" \n", b"b{\n", b"(\n", b")\n"]
    return [rng.choice(toks) for _ in range(n)]


def byte_bound_holds(name, cfg, kind, f, decider, cut, B):
    """the run again, allowed as many tests as the bound in the number of reducible bytes B"""
    tc = strat.testcase_from_fields(kind, f, cut)
    tc.filename = str(loaders.scratch() / "c09-collapse.txt")
    bb = (B + 1) * (B + clog2(B) + 2) + 1
    run = strat.run_real(name, cfg, tc, decider, max_tests=bb + 2, watchdog=10.0)
    return run.error is None and len(run.verdicts) + 1 <= bb


def one(ctx, name, cfg, kind, f, decider, do_model=True, label="", cut=None):
    tc = strat.testcase_from_fields(kind, f, cut)
    n = len(tc)
    B = sum(len(p) for p, r in zip(f[1], f[2]) if r)
    rewriting = name.startswith("replace")
    bound = (B + 2) ** 2 if rewriting else bound_removal(n)
    if name == "minimize-collapse-brace":
        p = loaders.scratch() / "c09-collapse.txt"
        tc.filename = str(p)
    if n == 0:
        return None
    run = strat.run_real(name, cfg, tc, decider, max_tests=bound + 2, watchdog=10.0)
    case = dict(strategy=name, cfg={k: v for k, v in cfg.items()}, splitter=kind, parts=common.enc_list(f[1]),
                reducible=common.enc_bools(f[2]), verdicts="".join("1" if v else "0" for v in run.verdicts[:200]), label=label)
    if do_model and name in strat.MODELLED:
        ctx.expect(name, strat.model_line(name, cfg, f, run.verdicts, kind=kind, cut=cut), run.encode(), case)
    else:
        ctx.evaluations += 1
    tests = len(run.verdicts) + 1
    if run.error == "test-limit" or tests > bound:
        grew = sum(len(p) for p in run.best[1]) > sum(len(p) for p in f[1])
        def nred(fl):
            return sum(1 for r in fl[2] if r)
        def resplit_ok(fl):
            """the atoms of a re-loaded collapse candidate are the ones the testcase's OWN delimiter sets give (independent
            structural rule: cut after a byte of cut-after, before a byte of cut-before)"""
            if kind != "symbol" or cut is None or set(cut[0]) & set(cut[1]) or fl[0] or fl[3] or not all(fl[2]):
                return False
            data_ = b"".join(fl[1])
            cuts, pos = set(), 0
            for p_ in fl[1][:-1]:
                pos += len(p_)
                cuts.add(pos)
            return cuts == {q for q in range(1, len(data_)) if data_[q - 1] in cut[1] or data_[q] in cut[0]}
        grown = [a for a in run.atts if a["tag"] == 3 and a["resp"] == "a" and nred(a["cand"]) > nred(a["best_before"])]
        regrown = name == "minimize-collapse-brace" and bool(grown) and all(resplit_ok(a["cand"]) for a in grown) and \
            not any(len(strat.content(a["cand"])) > len(strat.content(a["best_before"])) for a in grown)   # collapsing never lengthens the text
        if name == "replace-arguments-by-globals" and grew and b"".join(f[1]) in KNOWN_GROWING:
            ctx.fail("replace-arguments-grows", f"{tests}+ tests > bound {bound} on B={B} bytes (the file grows)", case)
        elif regrown and byte_bound_holds(name, cfg, kind, f, decider, cut, B):
            # more atoms after the re-load of a collapsed text than before: the bound in the INITIAL atom count is exceeded,
            # the same bound in the number of reducible BYTES (no re-split can make more atoms than that) is not
            ctx.fail("collapse-regrows-atoms", f"{tests} tests > bound {bound} for n={n} atoms: the re-load of the collapsed text has more atoms than the testcase it replaces", case)
        else:
            ctx.fail("too-many-tests", f"{name}: {tests}{'+' if run.error else ''} tests > bound {bound} (n={n}, B={B})", case)
    elif run.error:
        ctx.fail("internal-error", f"{name}: {run.error}", case)
    ctx.bump("runs:" + name)
    lead = (B * B) if rewriting else n * n
    if n >= 32 or (lead and 4 * tests >= lead):
        ctx.nontriv(name, repr(sorted(cfg.items())), case["parts"], case["reducible"], case["verdicts"])
        ctx.sample(dict(strategy=name, n=n, tests=tests, bound=bound, cfg=cfg), limit=5)
    ctx.hist["max-ratio-x1000:" + name] = max(ctx.hist.get("max-ratio-x1000:" + name, 0), int(1000 * tests / bound))
    return run


def rewrite_passes(ctx, name, cfg, kind, f, decider, label):
    """the round skeleton of a rewriting strategy: record what every call of its pass function reports (chunk size, tests
    run, characters/arguments it says it removed), check the two hypotheses of theorem C09_rewrite_skeleton on these
    numbers, and replay the pass list through the Lean skeleton `rwLoop` (same number of tests and passes, ends by break)"""
    st = strat.make_strategy(name, cfg)
    passes = []
    props = name == "replace-properties-by-globals"
    orig = st.try_making_globals if props else st.try_arguments_as_globals

    def wrapped(*a, **k):
        it = a[-1]
        rec = dict(cs=a[0] if props else 1, tests=0, removed=0, bytes=sum(len(p) for p in it.testcase.parts))
        passes.append(rec)
        pending = None
        for item in orig(*a, **k):
            if pending is not None and it.last_feedback:
                rec["removed"] += pending
            rec["tests"] += 1
            pending = item[0]
            yield item
        if pending is not None and it.last_feedback:
            rec["removed"] += pending

    if props:
        st.try_making_globals = wrapped
    else:
        st.try_arguments_as_globals = wrapped
    tc = strat.testcase_from_fields(kind, f)
    B = sum(len(p) for p, r in zip(f[1], f[2]) if r)
    run = strat.run_real(name, cfg, tc, decider, max_tests=(B + 2) ** 2 + 2, watchdog=10.0, strategy=st)
    case = dict(strategy=name, cfg=dict(cfg), splitter=kind, parts=common.enc_list(f[1]), label=label,
                passes=[(p["cs"], p["tests"], p["removed"]) for p in passes][:60])
    ctx.evaluations += 1
    ctx.bump("rewrite-skeleton:" + name)
    if run.error:
        return  # reported (or matched with the recorded finding) by `one`
    P = max(B // 2, 1)
    for i, p in enumerate(passes):
        if p["tests"] > P:
            ctx.fail("rewrite-pass-too-long", f"{name}: pass {i} (chunk size {p['cs']}) ran {p['tests']} tests on {B} bytes of reducible text "
                     f"(hypothesis of C09_rewrite_skeleton: at most B/2)", case)
            return
    if sum(p["removed"] for p in passes) > B:
        ctx.fail("rewrite-progress-unbounded", f"{name}: the passes report {sum(p['removed'] for p in passes)} removed in total on {B} bytes "
                 f"(hypothesis of C09_rewrite_skeleton: at most B)", case)
        return
    rep = cfg.get("rep", "last")
    final = max(cfg.get("min", 1), 1) if props else 1
    cs0 = passes[0]["cs"] if passes else 1
    plist = ",".join(f"{p['tests']}:{p['removed']}" for p in passes) or "0:0"
    ctx.expect("rwloop", f"rwloop {rep} {final} {cs0} {plist}", f"{len(run.verdicts)} {len(passes)} 1", case)
    if len(passes) >= 3 and any(p["removed"] for p in passes):
        ctx.nontriv("rewrite-skeleton", name, repr(sorted(cfg.items())), case["parts"], tuple(case["passes"]))


def deciders(rng):
    yield "always-yes", (lambda k, c: True)
    yield "always-no", (lambda k, c: False)
    yield "alternate", (lambda k, c: k % 2 == 0)
    yield "alternate'", (lambda k, c: k % 2 == 1)
    for m in (3, 5):
        yield f"every-{m}th", (lambda k, c, m=m: k % m == m - 1)
    for p in (0.1, 0.5, 0.9):
        seq = [rng.random() < p for _ in range(997)]
        yield f"random-{p}", (lambda k, c, seq=seq: seq[k % 997])


def grid(ctx, thorough, do_model=True):
    rng = ctx.rng
    sizes = [1, 2, 3, 4, 5, 7, 8, 9, 13, 16, 17, 24, 32, 40] + ([64] if thorough else [])
    cfgs = [dict(), dict(rep="always"), dict(rep="never"), dict(min=2, max=4), dict(rep="always", min=4, max=4, repeat_first=True),
            dict(repeat_first=True), dict(min=8, max=2)]
    for name in REMOVAL:
        for n in sizes:
            for cfg in cfgs:
                if n > 17 and not thorough and cfg not in (cfgs[0], cfgs[1]):
                    continue
                parts = brace_text(n, rng)
                red = [rng.random() < 0.85 for _ in range(n)] if rng.random() < 0.4 else [True] * n
                f = (b"", parts, red, b"")
                for label, dec in deciders(rng):
                    one(ctx, name, cfg, "line", f, dec, do_model, label)
    # --js / --attrs files: B counts the reducible text only (a few string characters / attributes); the text around it is
    # full of property accesses and function definitions that are not Lithium's to rewrite
    code = b"".join(b"obj%d.prop%d = %d;\n" % (i, i, i) for i in range(40))
    protected = {"jsstr": b"var first = 'x';\n" + code + b"function p(q, r) { return q.s + r.t; }\np(u.v, w.x);\nvar last = \"y\";\n",
                 "attrs": b"<div k>\n" + code + b"function h(i){} h(j.k)\n</div>\n<p q>\n"}
    for name in ("replace-properties-by-globals", "replace-arguments-by-globals"):
        for kind, data in protected.items():
            res = loaders.real_load(kind, data)
            f = strat.fields(res[1])
            for cfg in (dict(), dict(rep="always")):
                for label, dec in deciders(rng):
                    one(ctx, name, cfg, kind, f, dec, False, "protected-text:" + label)
    for name in ("replace-properties-by-globals", "replace-arguments-by-globals"):
        for data in JS:
            for kind in ("line", "char", "symbol"):
                res = loaders.real_load(kind, data)
                f = strat.fields(res[1])
                for cfg in (dict(), dict(rep="always"), dict(rep="never")):
                    for label, dec in deciders(rng):
                        one(ctx, name, cfg, kind, f, dec, do_model, label)
                        if do_model:
                            rewrite_passes(ctx, name, cfg, kind, f, dec, label)


COLLAPSE_FILES = [b"f{ \n }g;h{\t}\n;x y z {  } w\n", b"a {\n\n}\nb{ }{\r\n}\nc\n", b"// DDBEGIN\nif (x) {\n  \n}\ny{\n}\n// DDEND\n{\n}\n"]
COLLAPSE_KINDS = [("line", None), ("char", None), ("symbol", None), ("symbol", (b"", b"\n")), ("symbol", (b"{", b"}")), ("symbol", (b" ", b";")),
                  ("jsstr", None), ("attrs", None)]


def collapse_runs(ctx, do_model=True):
    """brace collapsing re-loads the rewritten text with a copy of the testcase: every splitter, custom symbol delimiters included"""
    rng = ctx.rng
    for data in COLLAPSE_FILES + [b"s = '{ }' + \"{\\n\";\nt = '{' + ' ' + '}';\n", b"<a b='{' c=' ' d='}'><e f=\"{  }\">\n"]:
        for kind, cut in COLLAPSE_KINDS:
            res = loaders.real_load(kind, data, cut)
            if res[0] != "ok":
                continue
            f = strat.fields(res[1])
            for cfg in (dict(), dict(rep="always"), dict(min=2, max=2, rep="never")):
                for label, dec in deciders(rng):
                    one(ctx, "minimize-collapse-brace", cfg, kind, f, dec, do_model, "collapse:" + label, cut=cut)


def marker_forming(ctx, do_model=True):
    """deleting atoms joins pieces into a DDBEGIN/DDEND word right when a brace pair is collapsed: the re-load of
    the collapsed text must not end the run with an error"""
    cases = [("char", b"{  }DDxEND", lambda c: b"END" in c and b"DD" in c and b"{  }" in c),
             ("char", b"{  }DDBExGIN", lambda c: b"GIN" in c and b"DDBE" in c and b"{  }" in c),
             ("symbol", b"{  }DD;x;END;", lambda c: b"END" in c and b"DD" in c and b"{  }" in c),
             ("char", b"h\n// DDBEGIN\na{  }DDxEND\n// DDEND\nt\n", lambda c: b"aEND" not in c and b"DDEND\n//" in c.replace(b"x", b"") and b"{  }" in c)]
    for kind, data, fn in cases:
        res = loaders.real_load(kind, data)
        f = strat.fields(res[1])
        for cfg in (dict(), dict(rep="always")):
            one(ctx, "minimize-collapse-brace", cfg, kind, f, lambda k, c, fn=fn: fn(c), do_model, "marker-forming")


def collapse_deterministic(ctx, do_model=True):
    """brace collapsing under CONSISTENT tests on inputs with identical atoms inside a brace pair: the collapsed text and
    the single deletions repeat contents that were tried before, so the de-duplication answers instead of the test"""
    import hashlib
    datas = [b"function f() {\n\n\n}\n", b"a {\n\n\n\n}\nb {\n \n}\n", b"{\n\n}\n{\n\n}\n", b"x{ \n \n }y{ \n }\n"]
    import re as _re
    oracles = [("blank-between-braces", lambda c: b"{\n\n" in c or b"{ \n" in c or b"{\n \n" in c),
               ("blank-line-inside-pair", lambda c: _re.search(rb"\{\n\n+\}", c) is not None),
               ("ws-inside-pair", lambda c: _re.search(rb"\{\s\s+\}", c) is not None),
               ("has-brace-pair", lambda c: c.count(b"{") == c.count(b"}") and b"{" in c),
               ("parity", lambda c: len(c) % 2 == 0),
               ("hash", lambda c: hashlib.blake2b(c, digest_size=1).digest()[0] < 150),
               ("collapsed-only", lambda c: b"{ }" in c or c.count(b"\n") >= 3)]
    for data in datas:
        for kind in ("line", "char", "symbol"):
            res = loaders.real_load(kind, data)
            f = strat.fields(res[1])
            for cfg in (dict(), dict(rep="always"), dict(rep="never")):
                for label, fn in oracles:
                    if fn(data):
                        one(ctx, "minimize-collapse-brace", cfg, kind, f, lambda k, c, fn=fn: fn(c), do_model, "collapse-det:" + label)


def trees(ctx, limit, do_model=True):
    done_all = True
    for name in REMOVAL:
        for n in (1, 2, 3, 4):
            for cfg in (dict(), dict(rep="always")):
                f = (b"", [b"{\n", b"a\n", b"}\n", b"a\n"][:n], [True] * n, b"")

                def run_with(prefix):
                    r = one(ctx, name, cfg, "line", f, lambda k, c: k < len(prefix) and prefix[k], do_model, "tree")
                    return len(r.verdicts)
                from .. import scripts
                cnt, done = scripts.verdict_tree(run_with, limit)
                ctx.bump("tree-leaves", cnt)
                done_all = done_all and done
    return done_all


def hill_climb(ctx, rounds):
    """adversarial search: mutate a verdict script to maximise the test count"""
    rng = ctx.rng
    for name in REMOVAL:
        n = 12
        f = (b"", brace_text(n, rng), [True] * n, b"")
        best_seq = [rng.random() < 0.5 for _ in range(400)]
        best = -1
        for _ in range(rounds):
            seq = list(best_seq)
            for _ in range(rng.randint(1, 6)):
                i = rng.randrange(min(len(seq), max(best, 8) + 4))
                seq[i] = not seq[i]
            r = one(ctx, name, dict(rep="always"), "line", f, lambda k, c, seq=seq: seq[k % 400], True, "hill-climb")
            if r and len(r.verdicts) > best:
                best, best_seq = len(r.verdicts), seq
        ctx.hist["hill-climb-best:" + name] = best


def loose_verdicts(ctx):
    """interestingness tests that do not answer with a real bool — 1/0, a non-empty/empty string, or falling off the end
    (None) for "not interesting": through the real driver every strategy still finishes without an internal error"""
    from .. import scripts
    data = {"line": b"a\n{\nb\n}\nc\nd\n", "char": b"ab{}c"}
    for name in REMOVAL + ["replace-properties-by-globals", "replace-arguments-by-globals", "check-only"]:
        for kind, d in data.items():
            for answers in ((1, 0), ("yes", ""), (True, None), ([0], [])):
                seq = [False, True, False, False, True] * 40
                o, f, run = scripts.play_real(name, {}, kind, d, lambda k, disk, seq=seq: "a" if k == 0 or seq[k % len(seq)] else "r",
                                              answers=answers, max_tests=300)
                ctx.evaluations += 1
                ctx.bump("loose-verdicts")
                case = dict(strategy=name, splitter=kind, data=common.enc_bytes(d), answers=repr(answers), on_disk=True)
                if o.exit == "x":
                    ctx.fail("internal-error", f"{name} with a test answering {answers!r} for accept/reject: run() raised "
                             f"{type(o.exc).__name__}: {o.exc}", case)


def known_finding_cases(ctx):
    res = loaders.real_load("line", b"function f(a){}\nf(function f(x){})\n")
    one(ctx, "replace-arguments-by-globals", dict(), "line", strat.fields(res[1]), lambda k, c: True, False, "known-finding")
    res = loaders.real_load("line", b"a; f(1); function f(a){}\n")
    one(ctx, "replace-arguments-by-globals", dict(), "line", strat.fields(res[1]), lambda k, c: True, False, "known-finding")
    # brace collapsing with `--cut-after ' '`: 3 atoms, the last one holds 6 brace pairs `xI{\n}`; collapsing turns every
    # `{\n}` into `{ }`, and the re-load cuts after each of the new spaces
    cut = (b"", b" ")
    data = b"a b " + b"".join(b"x%d{\n}" % i for i in range(6))
    res = loaders.real_load("symbol", data, cut)
    f = strat.fields(res[1])
    atoms2 = strat.fields(loaders.real_load("symbol", data.replace(b"{\n}", b"{ }"), cut)[1])[1]
    suffixes = {b"".join(atoms2[j:]) for j in range(len(atoms2) + 1)}
    dec = lambda k, c: c == data or c in suffixes
    one(ctx, "minimize-collapse-brace", dict(), "symbol", f, dec, False, "known-finding", cut=cut)
    # the same run to its end (the monitor above stops it at the bound), model against code
    tc = strat.testcase_from_fields("symbol", f, cut)
    tc.filename = str(loaders.scratch() / "c09-collapse.txt")
    run = strat.run_real("minimize-collapse-brace", dict(), tc, dec, max_tests=2000, watchdog=10.0)
    case = dict(strategy="minimize-collapse-brace", cfg={}, splitter="symbol", parts=common.enc_list(f[1]), label="known-finding, full run",
                tests=len(run.verdicts) + 1)
    ctx.expect("minimize-collapse-brace", strat.model_line("minimize-collapse-brace", dict(), f, run.verdicts, kind="symbol", cut=cut), run.encode(), case)
    if len(run.verdicts) + 1 != 49 or run.error:
        ctx.fail("known-finding-replay-changed", f"the recorded collapse-regrows-atoms run now makes {len(run.verdicts) + 1} tests (49 recorded), error={run.error}", case)


def option_values(ctx):
    """'for all ... configurations': any value the command line ACCEPTS for --min/--max/--chunk-size (negative ones, zero, non
    powers of two are either refused before the first test or the run still ends within the bound)"""
    import contextlib
    import io
    import os
    import signal
    import sys
    from lithium.reducer import Lithium
    from lithium.util import LithiumError

    d = loaders.scratch() / "c09-cli"
    d.mkdir(exist_ok=True)
    (d / "c09_cap_test.py").write_text(
        "import os\nCOUNT = [0]\nclass TooMany(Exception):\n    pass\n"
        "def interesting(args, prefix):\n    COUNT[0] += 1\n    if COUNT[0] > int(os.environ['C09_CAP']):\n        raise TooMany()\n"
        "    mode = os.environ['C09_MODE']\n    return COUNT[0] == 1 or mode == 'yes' or (mode == 'alt' and COUNT[0] % 2 == 1)\n")
    data = b"".join(b"l%d\n" % i for i in range(8))
    cap = bound_removal(8)

    class Stuck(Exception):
        pass

    def on_alarm(_s, _f):
        raise Stuck()

    cwd = os.getcwd()
    os.chdir(d)
    old = signal.signal(signal.SIGALRM, on_alarm)
    try:
        for name in REMOVAL:
            for opts in (["--max=-4"], ["--max=-1"], ["--chunk-size=-2"], ["--chunk-size=-1"], ["--min=-2"], ["--min=-1", "--max=-1"], ["--max=0"],
                         ["--chunk-size=0"], ["--min=0"], ["--max=3"], ["--chunk-size=6"], ["--min=4", "--max=2"], ["--max=4"], ["--chunk-size=2"]):
                for mode in ("yes", "alt", "no"):
                    tc = d / "tc.txt"
                    tc.write_bytes(data)
                    sys.modules.pop("c09_cap_test", None)
                    os.environ["C09_CAP"], os.environ["C09_MODE"] = str(cap), mode
                    argv = [f"--strategy={name}"] + opts + ["c09_cap_test.py", str(tc)]
                    case = dict(cli=True, argv=argv[:-1], verdicts=mode, n=8)
                    ctx.evaluations += 1
                    ctx.bump("option-values")
                    signal.alarm(20)
                    try:
                        with contextlib.redirect_stdout(io.StringIO()), contextlib.redirect_stderr(io.StringIO()):
                            Lithium().main(argv)
                        ctx.nontriv("option-values", name, tuple(opts), mode)
                    except (SystemExit, LithiumError):
                        pass                    # refused: fine
                    except Stuck:
                        ctx.fail("too-many-tests", f"main({argv[:-1]}) ({mode}): still running after 20 s without exceeding {cap} tests", case)
                    except Exception as exc:  # pylint: disable=broad-except
                        if type(exc).__name__ == "TooMany":
                            ctx.fail("too-many-tests", f"main({argv[:-1]}) ({mode}) on 8 atoms: more than {cap} tests", case)
                        else:
                            ctx.fail("internal-error", f"main({argv[:-1]}) ({mode}) raised {type(exc).__name__}: {exc}", case)
                    finally:
                        signal.alarm(0)
    finally:
        signal.signal(signal.SIGALRM, old)
        os.environ.pop("C09_CAP", None)
        os.environ.pop("C09_MODE", None)
        os.chdir(cwd)


def stingy_collapse(ctx):
    """minimize-collapse-brace against a STATEFUL, stingy test (in the style of the project's own unit tests): it accepts a
    candidate that only adds white space to the accepted file, and otherwise one single-atom removal (white-space atoms
    first) after a long row of rejections.  Files full of adjacent brace pairs, symbol atoms with the default sets."""
    import re as _re
    for data in (b"".join(b"x%d{}" % i for i in range(24)), b"".join(b"y%d{ }" % i for i in range(16)), b"".join(b"z%d{\n}" % i for i in range(12)),
                 b"".join(b"w%d{}\n" % i for i in range(20))):
        for kind in ("symbol", "char", "line"):
            res = loaders.real_load(kind, data)
            if res[0] != "ok":
                continue
            f = strat.fields(res[1])
            state = dict(accepted=data, row=0)

            def dec(k, c, state=state, kind=kind):
                acc = state["accepted"]
                r2 = loaders.real_load(kind, acc)
                atoms = list(r2[1].parts) if r2[0] == "ok" else [acc]
                blanks = [i for i, a in enumerate(atoms) if not a.strip()]
                one_gone = any(c == b"".join(atoms[:i] + atoms[i + 1:]) for i in (blanks or range(len(atoms))))
                if len(c) > len(acc) and _re.sub(rb"\s+", b"", c) == _re.sub(rb"\s+", b"", acc):
                    v = True
                elif one_gone and state["row"] >= len(atoms) - 3:
                    v = True
                else:
                    v = False
                if v:
                    state["accepted"], state["row"] = c, 0
                else:
                    state["row"] += 1
                return v

            one(ctx, "minimize-collapse-brace", dict(), kind, f, dec, False, "stingy-collapse")


def search(ctx):
    option_values(ctx)
    collapse_runs(ctx, do_model=False)
    marker_forming(ctx, do_model=False)
    collapse_deterministic(ctx, do_model=False)
    grid(ctx, True, do_model=False)
    trees(ctx, 3000, do_model=False)


def run(ctx) -> int:
    proof = common.proof_stage(ctx.pid)
    known_finding_cases(ctx)
    loose_verdicts(ctx)
    option_values(ctx)
    grid(ctx, ctx.thorough)
    collapse_runs(ctx)
    marker_forming(ctx)
    collapse_deterministic(ctx)
    stingy_collapse(ctx)
    if trees(ctx, 6000 if ctx.thorough else 250):
        ctx.exhaustive.append("every verdict sequence of the four removal strategies for n <= 4 atoms (repeat last/always)")
    hill_climb(ctx, 400 if ctx.thorough else 60)
    return common.decide(ctx, proof, RULE, search=search,
                         assumptions=["the rewriting strategies: C09_rewrite_skeleton is a theorem about their round skeleton (which pass follows which); its two hypotheses "
                                      "(a pass runs at most B/2 tests; the passes report at most B removed in total) are checked on the numbers the real pass "
                                      "functions report, and the recorded pass lists are replayed through the Lean skeleton; the regex code of a pass is not modelled",
                                      "replace-arguments-by-globals growing the file without bound is a recorded finding"])


def replay(rec) -> int:
    print(rec["case"])
    return 0
