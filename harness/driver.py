"""D1/D2: running the real driver (`Lithium.run`, `Lithium.interesting`, `Strategy.main`,
`ReductionIterator`) on disk under a scripted strategy / scripted interestingness test, and
encoding what is observable in the format of the model's `world` command.

A script is a list of runs on ONE Lithium object; a run is
    dict(kind='m'|'c', first='a'|'r'|'x', events=[('p', out, tc_fields) | ('w', bytes) | ('e',)])
where tc_fields = (before, parts, reducible, after)."""
from __future__ import annotations

import os
import shutil
from pathlib import Path

from . import loaders
from .common import enc_bools, enc_bytes, enc_list

OLD_NS = 10**18


class Abort(BaseException):
    """a BaseException subclass of our own, used as one of the abort classes"""


ABORT_CLASSES = [RuntimeError, KeyboardInterrupt, SystemExit, GeneratorExit, Abort, OSError]


def fields(tc):
    return (bytes(tc.before), [bytes(p) for p in tc.parts], [bool(r) for r in tc.reducible], bytes(tc.after))


def content(f):
    return f[0] + b"".join(f[1]) + f[3]


def mk_like(proto, f):
    t = proto.copy()
    t.before, t.parts, t.reducible, t.after = f[0], list(f[1]), list(f[2]), f[3]
    return t


class ScriptedTest:
    """plays the interestingness module: records what it can see, answers as scripted"""

    def __init__(self, path: Path, abort_cls):
        self.path = path
        self.abort_cls = abort_cls
        self.next = "r"
        self.decider = None  # optional: (call index, disk bytes) -> 'a' | 'r' | 'x'
        self.answers = (True, False)  # what the module returns for accept / reject (tests answer 1/0, or fall off the end: None)
        self.calls = []  # dict(prefix, args, disk, listing)
        self.trace = []
        self.args_seen = None

    def init(self, args):
        self.trace.append("init")

    def cleanup(self, args):
        self.trace.append("cleanup")

    def interesting(self, args, prefix):
        tmpdir = Path(prefix).parent
        listing = list_tmp(tmpdir)
        idx = Path(prefix).name
        self.trace.append("t" + idx)
        disk = self.path.read_bytes()
        out = self.decider(len(self.calls), disk) if self.decider is not None else self.next
        self.calls.append(dict(prefix=prefix, idx=idx, args=list(args), disk=disk,
                               listing=listing, out=out, tmpdir=str(tmpdir)))
        if out == "x":
            raise self.abort_cls("scripted abort")
        return self.answers[0] if out == "a" else self.answers[1]


def tmp_key(name):
    if name.startswith("original"):
        return (-1, name)
    head = name.split("-", 1)[0]
    return (int(head), name) if head.isdigit() else (10**9, name)


def list_tmp(tmpdir: Path):
    out = []
    for name in sorted(os.listdir(tmpdir), key=tmp_key):
        p = tmpdir / name
        if p.is_file():
            out.append((os.path.splitext(name)[0], p.read_bytes()))
    return out


def enc_tmp(listing):
    return "+".join(f"{n}={enc_bytes(b)}" for n, b in listing) if listing else "."


def make_strategy(events, test, proto):
    from lithium.strategies import ReductionIterator, Strategy

    class Scripted(Strategy):
        name = "scripted"

        @ReductionIterator.wrap
        def reduce(self, iterator):
            for ev in events:
                if ev[0] == "p":
                    test.next = ev[1]
                    yield from iterator.try_testcase(mk_like(proto, ev[2]), "scripted")
                elif ev[0] == "w":
                    with open(proto.filename, "wb") as fh:
                        fh.write(ev[1])
                elif ev[0] == "e":
                    raise RuntimeError("scripted strategy failure")

    return Scripted()


class Observed:
    """what one `run()` showed"""

    def __init__(self):
        self.exit = None
        self.exc = None
        self.disk = None
        self.wrote = None
        self.count = None
        self.total = None
        self.tmp = None
        self.calls = None  # all calls so far (cumulative)
        self.trace = None
        self.tested = None  # spied candidates of this run: list of (fields, write_it)

    def encode(self):
        tests = ";".join(f"{c['idx']}:{enc_bytes(c['disk'])}:{c['out']}:{enc_tmp(c['listing'])}" for c in self.calls) or "."
        return (f"exit={self.exit} disk={enc_bytes(self.disk)} wrote={'1' if self.wrote else '0'} count={self.count} "
                f"total={self.total} tmp={enc_tmp(self.tmp)} tests={tests} hooks={','.join(self.trace)}")


class Session:
    """one Lithium object in a private working directory"""

    def __init__(self, orig_fields, kind="line", ext=".txt", abort_cls=RuntimeError, given_tempdir=False, cut=None,
                 from_file=None):
        from lithium.reducer import Lithium

        base = loaders.scratch() / f"sess-{os.getpid()}"
        if base.exists():
            shutil.rmtree(base)
        base.mkdir()
        self.base = base
        self.path = base / ("tc" + ext)
        proto = loaders.new_testcase(kind, cut)
        if from_file is not None:
            # the real loader splits the bytes
            self.orig_bytes = from_file
            self.path.write_bytes(from_file)
            proto.load(self.path)
            self.tc = proto
            self.orig_fields = fields(proto)
        else:
            self.orig_bytes = content(orig_fields)
            self.path.write_bytes(self.orig_bytes)
            proto.filename = str(self.path)
            proto.extension = ext
            self.tc = mk_like(proto, orig_fields)
            self.orig_fields = orig_fields
        self.proto = self.tc
        self.test = ScriptedTest(self.path, abort_cls)
        self.lith = Lithium()
        self.lith.testcase = self.tc
        self.lith.condition_script = self.test
        self.lith.condition_args = ["arg1", "--opt"]
        if given_tempdir:
            (base / "given").mkdir()
            self.lith.temp_dir = base / "given"
        self.spied = []
        real_interesting = self.lith.interesting

        def spy(tc, write_it=True):
            self.spied.append((fields(tc), write_it))
            return real_interesting(tc, write_it)

        self.lith.interesting = spy

    def run(self, strategy, first):
        """one `run()`; `strategy` is a Strategy instance"""
        obs = Observed()
        self.test.next = first
        self.lith.strategy = strategy
        os.utime(self.path, ns=(OLD_NS, OLD_NS))
        ino = os.stat(self.path).st_ino
        spied_from = len(self.spied)
        cwd = os.getcwd()
        os.chdir(self.base)
        try:
            try:
                rc = self.lith.run()
                obs.exit = f"r{rc}"
            except BaseException as exc:  # pylint: disable=broad-except
                obs.exit = "x"
                obs.exc = exc
        finally:
            os.chdir(cwd)
        if self.path.exists():
            st = os.stat(self.path)
            obs.disk = self.path.read_bytes()
            obs.wrote = st.st_mtime_ns != OLD_NS or st.st_ino != ino
        else:
            obs.disk = None     # the run ended without the testcase file being there at all
            obs.wrote = True
        obs.count = self.lith.test_count
        obs.total = self.lith.test_total
        tmpdir = self.lith.temp_dir
        if tmpdir is not None and not Path(tmpdir).is_absolute():
            tmpdir = self.base / tmpdir
        obs.tmpdir = tmpdir
        obs.tmp = list_tmp(Path(tmpdir)) if tmpdir is not None and Path(tmpdir).is_dir() else []
        obs.tmp_names = sorted(os.listdir(tmpdir)) if tmpdir is not None and Path(tmpdir).is_dir() else []
        obs.ext = os.path.splitext(str(self.path))[1]
        obs.calls = list(self.test.calls)
        obs.trace = list(self.test.trace)
        obs.tested = self.spied[spied_from:]
        return obs

    def reload(self, new_fields):
        """a new job for the same Lithium object: the file now holds another testcase, which is loaded again"""
        self.path.write_bytes(content(new_fields))
        self.tc = mk_like(self.proto, new_fields)
        self.lith.testcase = self.tc

    def close(self):
        shutil.rmtree(self.base, ignore_errors=True)


def enc_fields(f, sep=" "):
    return sep.join((enc_bytes(f[0]), enc_list(f[1]), enc_bools(f[2]), enc_bytes(f[3])))


def enc_event(ev):
    if ev[0] == "p":
        return f"p/{ev[1]}/" + enc_fields(ev[2], "/")
    if ev[0] == "w":
        return "w/" + enc_bytes(ev[1])
    return "e"


def model_line(orig_fields, runs):
    rs = []
    for r in runs:
        evs = ";".join(enc_event(e) for e in r["events"]) or "."
        rs.append(f"{r['kind']}:{r['first']}:{evs}" + (":" + enc_fields(r["reload"], sep="/") if r.get("reload") else ""))
    return f"world {enc_fields(orig_fields)} {enc_bytes(content(orig_fields))} " + "|".join(rs)


def play(orig_fields, runs, kind="line", abort_cls=RuntimeError, given_tempdir=False):
    """run a script on the real code; returns (list of Observed, session facts)"""
    from lithium.strategies import CheckOnly

    s = Session(orig_fields, kind=kind, abort_cls=abort_cls, given_tempdir=given_tempdir)
    obs = []
    try:
        for r in runs:
            if r.get("reload"):
                s.reload(r["reload"])
            strat = CheckOnly() if r["kind"] == "c" else make_strategy(r["events"], s.test, s.proto)
            obs.append(s.run(strat, r["first"]))
    finally:
        info = dict(orig=s.orig_bytes, path=str(s.path))
        s.close()
    return obs, info


# ----------------------------------------------------------------------------------------
# monitors: the properties' words on what was observed (never the model)


def last_accepted(calls, orig):
    good = [c for c in calls if c["out"] == "a"]
    return good[-1]["disk"] if good else orig


def mon_c01(ctx, obs, orig, case, key_prefix=""):
    """after every run the file holds what it held during the last accepting test"""
    for i, o in enumerate(obs):
        want = last_accepted(o.calls, orig)
        if o.disk != want:
            ctx.fail(key_prefix + "final-not-last-accepted",
                     f"run {i}: file holds {o.disk!r}, last accepted version is {want!r} (exit {o.exit})", case)
            return


def mon_c02(ctx, obs, orig, case):
    prev_trace = 0
    prev_calls = 0
    for i, o in enumerate(obs):
        tr = o.trace[prev_trace:]
        prev_trace = len(o.trace)
        if not tr or tr[0] != "init" or tr.count("init") != 1 or tr[-1] != "cleanup" or tr.count("cleanup") != 1:
            ctx.fail("hooks", f"run {i}: hook/test order {tr} (init once first, cleanup once last expected)", case)
        want = last_accepted(o.calls, orig)
        if o.disk != want:
            ctx.fail("abort-loses-accepted" if o.exit == "x" else "final-not-last-accepted",
                     f"run {i} ended with {o.exit}: file holds {o.disk!r}, last accepted version is {want!r}", case)
        # kill durability: inside every test the temp dir must already identify the last accepted version
        for k in range(prev_calls, len(o.calls)):
            c = o.calls[k]
            before = o.calls[:k]
            want_k = last_accepted(before, orig)
            inter = [(n, b) for n, b in c["listing"] if n.endswith("-interesting")]
            if inter:
                best = max(inter, key=lambda nb: int(nb[0].split("-")[0]))
                got = best[1]
            else:
                o_ = [b for n, b in c["listing"] if n == "original"]
                got = o_[0] if o_ else None
            kinds = [r[0] for r in case.get("runs", [])]
            if k == prev_calls and (kinds[i] if i < len(kinds) else "m") != "c":
                # first test of a run: the fallback copy `original` is the file this run started from (also when the temp
                # directory is shared with an earlier run, whose `original` is still lying there)
                o0 = [b for n, b in c["listing"] if n == "original"]
                start = content(o.tested[0][0]) if o.tested else None
                if o0 and start is not None and o0[0] != start:
                    ctx.fail("original-stale", f"run {i}, first test: `original` in the temp dir holds {o0[0]!r}, the run started from {start!r}", case)
            if o.calls[0:1] and k == 0 and got is None:
                continue  # check-only has no 'original' copy and nothing accepted yet: nothing to recover
            if got is None and not [x for x in before if x["out"] == "a"]:
                continue
            if got != want_k:
                ctx.fail("kill-not-durable", f"inside test {c['idx']}: newest *-interesting (or original) holds {got!r}, "
                         f"last accepted version is {want_k!r}", case)
        prev_calls = len(o.calls)


def mon_c11(ctx, obs, runs, orig_len, case):
    prev_calls = 0
    for i, (o, r) in enumerate(zip(obs, runs)):
        calls = o.calls[prev_calls:]
        prev_calls = len(o.calls)
        if o.exit == "x":
            continue
        if r["kind"] == "c":
            ok = len(calls) == 1 and not o.wrote and (o.exit == "r0") == (calls[0]["out"] == "a")
            if not ok:
                ctx.fail("check-only", f"check-only: {len(calls)} tests, wrote={o.wrote}, exit {o.exit}, verdict {calls[0]['out'] if calls else None}", case)
            continue
        if i == 0 and orig_len == 0:
            if calls or o.wrote or o.exit != "r0":
                ctx.fail("empty", f"nothing to reduce: {len(calls)} tests, wrote={o.wrote}, exit {o.exit}", case)
            continue
        if not calls:
            continue
        if calls[0]["out"] == "r":
            if len(calls) != 1 or o.wrote or o.exit == "r0":
                ctx.fail("rejected-original", f"original rejected: {len(calls)} tests, wrote={o.wrote}, exit {o.exit}", case)
        elif calls[0]["out"] == "a":
            later = any(c["out"] == "a" for c in calls[1:])
            if (o.exit == "r0") != later:
                ctx.fail("status", f"exit {o.exit} but a later candidate was {'' if later else 'never '}accepted", case)


def mon_c12(ctx, obs, orig, case, single_run_only=True):
    o = obs[0]
    calls = o.calls
    names = dict(o.tmp)
    if o.calls and o.tmp and o.tmp[0][0] == "original" and o.tmp[0][1] != orig:
        ctx.fail("original-copy", f"'original' holds {o.tmp[0][1]!r}, the original is {orig!r}", case)
    for k, c in enumerate(calls):
        if c["idx"] != str(k + 1) or Path(c["prefix"]).parent != Path(c["tmpdir"]):
            ctx.fail("prefix", f"test #{k + 1} was handed prefix {c['prefix']}", case)
        if c["out"] == "x":
            continue
        tag = f"{k + 1}-" + ("interesting" if c["out"] == "a" else "boring")
        other = f"{k + 1}-" + ("boring" if c["out"] == "a" else "interesting")
        if names.get(tag) != c["disk"] or other in names:
            ctx.fail("tagged-copy", f"after the run {tag} holds {names.get(tag)!r}; during test {k + 1} the file held {c['disk']!r}", case)
    if o.count != len(calls):
        ctx.fail("count", f"test_count={o.count} but {len(calls)} tests ran", case)
    ext = getattr(o, "ext", None)
    if ext:
        odd = [n for n in getattr(o, "tmp_names", []) if (n.startswith("original") or n.split("-")[0].isdigit()) and not n.endswith(ext)]
        if odd:
            ctx.fail("tagged-copy", f"files in the temp directory without the testcase's extension {ext!r}: {odd[:4]}", case)
    seen = {}
    for k, c in enumerate(calls):
        d = c["disk"]
        if d in seen and not (d == orig and seen[d] == [0]):
            ctx.fail("duplicate-test", f"tests {seen[d][0] + 1} and {k + 1} saw identical bytes {d!r}", case)
        seen.setdefault(d, []).append(k)
