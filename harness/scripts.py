"""script generators for the driver-level checks (C01, C02, C11, C12) and the runner for the
real strategies under scripted verdicts (D2)"""
from __future__ import annotations

from . import driver
from .driver import content

ATOMS = [b"a\n", b"b\n", b"a\n", b"{\n", b"}\n", b"c", b"\r\n", b"x;"]


def rand_fields(rng, nmax=5):
    n = rng.choice([0, 1, 2, 2, 3, 3, 4, nmax])
    parts = [rng.choice(ATOMS) for _ in range(n)]
    red = [rng.random() < 0.8 for _ in range(n)]
    before = rng.choice([b"", b"", b"// DDBEGIN\n"])
    after = rng.choice([b"", b"// DDEND\n"]) if before else b""
    return (before, parts, red, after)


def delete_some(rng, f):
    idx = [i for i, r in enumerate(f[2]) if r]
    if not idx:
        return f
    k = rng.randint(1, len(idx))
    gone = set(rng.sample(idx, k))
    return (f[0], [p for i, p in enumerate(f[1]) if i not in gone], [r for i, r in enumerate(f[2]) if i not in gone], f[3])


def resplit(rng, f):
    """the same bytes cut differently (merge two neighbours, or move a part into before/after)"""
    before, parts, red, after = f
    if len(parts) >= 2 and rng.random() < 0.7:
        i = rng.randrange(len(parts) - 1)
        return (before, parts[:i] + [parts[i] + parts[i + 1]] + parts[i + 2:], red[:i] + [red[i]] + red[i + 2:], after)
    if parts:
        if rng.random() < 0.5:
            return (before + parts[0], parts[1:], red[1:], after)
        return (before, parts[:-1], red[:-1], parts[-1] + after)
    return f


def rand_run(rng, start_fields, allow_abort=True):
    """a run plus the simulated best it ends with (to make follow-up proposals realistic)"""
    if rng.random() < 0.12:
        first = rng.choice("arx" if allow_abort else "ar")
        return dict(kind="c", first=first, events=[]), start_fields
    first = rng.choices("arx", weights=[8, 2, 1 if allow_abort else 0])[0]
    events, best, tried, proposals = [], start_fields, set(), []
    pacc = rng.choice([0.0, 0.3, 0.5, 0.8, 1.0])
    aborted = first != "a"
    for _ in range(rng.choice([0, 1, 2, 3, 4, 6, 9])):
        c = rng.random()
        if c < 0.6:
            cand = delete_some(rng, best)
        elif c < 0.66 and proposals:
            cand = rng.choice(proposals)
        elif c < 0.72 and proposals:
            cand = resplit(rng, rng.choice(proposals))
        elif c < 0.74:
            cand = start_fields
        elif c < 0.78 and best[1]:
            # same length, different bytes (a size-only comparison cannot tell it from the best)
            i = rng.randrange(len(best[1]))
            swap = {b"a\n": b"b\n", b"b\n": b"a\n", b"{\n": b"}\n", b"}\n": b"{\n", b"c": b"d", b"x;": b"y;", b"\r\n": b"q\n"}
            cand = (best[0], best[1][:i] + [swap.get(best[1][i], best[1][i])] + best[1][i + 1:], best[2], best[3])
        elif c < 0.86:
            cand = rand_fields(rng)
        elif c < 0.95:
            events.append(("w", rng.choice([b"", b"junk\n", content(best), b"{ }\n"])))
            continue
        else:
            events.append(("e",))
            break
        out = "x" if (allow_abort and rng.random() < 0.07) else ("a" if rng.random() < pacc else "r")
        events.append(("p", out, cand))
        proposals.append(cand)
        if not aborted and content(cand) not in tried:
            tried.add(content(cand))
            if out == "a":
                best = cand
            if out == "x":
                aborted = True
    return dict(kind="m", first=first, events=events), (best if first == "a" else start_fields)


def rand_script(rng, allow_abort=True):
    f = rand_fields(rng)
    runs, cur = [], f
    for k in range(rng.choices([1, 2, 3], weights=[14, 5, 1])[0]):
        reload = None
        if k and rng.random() < 0.4:
            # a new job for the same object: the file is replaced and loaded again before this run
            reload = rand_fields(rng)
            cur = reload
        r, cur = rand_run(rng, cur, allow_abort)
        if reload is not None:
            r["reload"] = reload
        runs.append(r)
    return f, runs


# ----------------------------------------------------------------------------------------
# D2: real strategies


def make_real_strategy(name, opts):
    from lithium import strategies as S

    cls = {c.name: c for c in (S.Minimize, S.MinimizeSurroundingPairs, S.MinimizeBalancedPairs, S.CollapseEmptyBraces,
                               S.ReplacePropertiesByGlobals, S.ReplaceArgumentsByGlobals, S.CheckOnly)}[name]
    st = cls()
    for k, v in opts.items():
        setattr(st, k, v)
    return st


def play_real(name, opts, kind, data, decider, abort_cls=RuntimeError, fail_at=None, max_tests=400, cut=None, touch=None,
              vanish=False, answers=(True, False), touch_head=False):
    """one run() of a real strategy on a real file under `decider(k, disk)`.
    fail_at=j makes the j-th rmslice() call raise (an internal strategy failure).
    Returns (Observed, orig_fields, run-as-script)"""
    s = driver.Session(None, kind=kind, abort_cls=abort_cls, from_file=data, cut=cut)
    try:
        count = [0]

        def dec(k, disk):
            if k >= max_tests:
                return "x"
            out = decider(k, disk)
            if vanish and out == "x":
                # the tool under test moved its input away (a staging directory) and was interrupted before moving it back
                s.path.rename(s.path.with_name("staged-" + s.path.name))
            if touch is not None and out != "x" and touch(k):
                # the program under test rewrites its input in place (a formatter, a tool that normalises line ends)
                s.path.write_bytes((b"// header rewritten too\n" + disk[:3].upper() + disk[3:] if touch_head else disk)
                                   + b"\n// rewritten by the tool under test\n")
            return out

        s.test.decider = dec
        s.test.answers = answers
        undo = None
        if fail_at is not None:
            cls = type(s.tc)
            real = cls.rmslice

            def boom(self, a, b):
                count[0] += 1
                if count[0] == fail_at:
                    raise RuntimeError("injected rmslice failure")
                return real(self, a, b)

            cls.rmslice = boom
            undo = (cls, real)
        try:
            o = s.run(make_real_strategy(name, opts), "r")
        finally:
            if undo:
                undo[0].rmslice = undo[1]
        calls = o.calls
        events = []
        tested = o.tested
        kind_ = "c" if name == "check-only" else "m"
        first = calls[0]["out"] if calls else "a"
        for (f, _w), c in zip(tested[1:], calls[1:]):
            events.append(("p", c["out"], f))
        if o.exit == "x" and (not calls or calls[-1]["out"] != "x"):
            events.append(("e",))
        return o, s.orig_fields, dict(kind=kind_, first=first, events=events)
    finally:
        s.close()


def verdict_tree(run_with, limit):
    """enumerate every verdict sequence a run can see: DFS over deviations from 'reject'.
    run_with(prefix) must run with verdicts prefix + [False...] and return the number of tests."""
    stack = [[]]
    n = 0
    while stack and n < limit:
        prefix = stack.pop()
        tests = run_with(prefix)
        n += 1
        for i in range(len(prefix), tests):
            stack.append(prefix + [False] * (i - len(prefix)) + [True])
    return n, not stack
