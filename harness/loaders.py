"""running the real loaders (src/lithium/testcases.py) and encoding what they produce"""
from __future__ import annotations

import itertools
import os
import shutil
import tempfile
from pathlib import Path

from .common import enc_bytes, enc_tc

KINDS = ("line", "char", "symbol", "jsstr", "attrs")
MODELLED = ("line", "char", "symbol", "jsstr", "attrs")

_scratch = None


def scratch() -> Path:
    """a private scratch directory (tmpfs when available), removed at exit"""
    global _scratch
    if _scratch is None:
        base = "/dev/shm" if os.path.isdir("/dev/shm") and os.access("/dev/shm", os.W_OK) else None
        _scratch = Path(tempfile.mkdtemp(prefix="lithium-verif-", dir=base))
        import atexit

        atexit.register(shutil.rmtree, str(_scratch), True)
    return _scratch


def new_testcase(kind: str, cut=None):
    from lithium import testcases as T

    cls = dict(line=T.TestcaseLine, char=T.TestcaseChar, symbol=T.TestcaseSymbol,
               jsstr=T.TestcaseJsStr, attrs=T.TestcaseAttrs)[kind]
    t = cls()
    if kind == "symbol" and cut is not None:
        t.set_cut_chars(cut[0], cut[1])
    return t


def real_load(kind: str, data: bytes, cut=None, ext=".txt", preload=None):
    """returns ('ok', testcase) | ('err', tag, exc); `preload`: bytes the same object loads first (a re-used object)"""
    from lithium.util import LithiumError

    p = scratch() / f"in-{os.getpid()}{ext}"
    try:
        t = new_testcase(kind, cut)
    except Exception as exc:  # pylint: disable=broad-except
        # e.g. set_cut_chars() building an invalid pattern from a valid delimiter set
        return ("err", "internal " + type(exc).__name__ + " (creating the testcase object)", exc)
    if preload is not None:
        p.write_bytes(preload)
        t.load(p)
    p.write_bytes(data)
    try:
        t.load(p)
    except LithiumError as exc:
        msg = str(exc)
        if "'DDEND' without" in msg:
            return ("err", "endWithoutBegin", exc)
        if "'DDBEGIN' but no" in msg:
            return ("err", "beginWithoutEnd", exc)
        return ("err", "lithiumError-other", exc)
    except Exception as exc:  # pylint: disable=broad-except
        return ("err", "internal " + type(exc).__name__, exc)
    return ("ok", t)


def enc_load(res) -> str:
    if res[0] == "ok":
        return "ok " + enc_tc(res[1])
    return "err " + res[1]


def load_cmd(kind: str, data: bytes, cut=None) -> str:
    k = kind
    if kind == "symbol" and cut is not None:
        k = f"symbol:{enc_bytes(cut[0])}:{enc_bytes(cut[1])}"
    return f"load {k} {enc_bytes(data)}"


def all_strings(alphabet, maxlen):
    """every concatenation of up to maxlen alphabet entries (entries are byte strings)"""
    for n in range(maxlen + 1):
        for tup in itertools.product(alphabet, repeat=n):
            yield b"".join(tup)


def py_splitlines(data: bytes):
    return [l.encode("utf-8", "surrogateescape")
            for l in data.decode("utf-8", "surrogateescape").splitlines(keepends=True)]
